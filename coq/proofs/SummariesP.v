(* C19: lemmas about model/Summaries.v *)
From Coq Require Import List NArith ZArith QArith Bool Arith Lia Permutation Sorting.Sorted Morphisms Setoid.
From PV Require Import lib.Edits lib.LevDP lib.Str lib.Condensed proofs.CondensedP model.Summaries.
Import ListNotations.
Close Scope Q_scope.
Open Scope nat_scope.

(* ================================================================== generic insertion sort *)
Section SortP.
Context {X : Type}.
Variable leb : X -> X -> bool.
Hypothesis leb_total : forall a b, leb a b = true \/ leb b a = true.

Lemma insert_perm x l : Permutation (insert leb x l) (x :: l).
Proof.
  induction l as [|y r IH]; simpl; auto.
  destruct (leb x y); auto.
  etransitivity; [apply perm_skip, IH|apply perm_swap].
Qed.
Lemma isort_perm l : Permutation (isort leb l) l.
Proof.
  induction l as [|x r IH]; simpl; auto.
  etransitivity; [apply insert_perm|apply perm_skip, IH].
Qed.
Lemma insert_sorted x l : Sorted (fun a b => leb a b = true) l -> Sorted (fun a b => leb a b = true) (insert leb x l).
Proof.
  induction l as [|y r IH]; simpl; intros S.
  - repeat constructor.
  - destruct (leb x y) eqn:E.
    + constructor; auto.
    + inversion S as [|? ? S' H]; subst. constructor; auto.
      destruct r as [|z r']; simpl.
      * constructor. destruct (leb_total x y); congruence.
      * destruct (leb x z); constructor.
        -- destruct (leb_total x y); congruence.
        -- inversion H; auto.
Qed.
Lemma isort_sorted l : Sorted (fun a b => leb a b = true) (isort leb l).
Proof. induction l; simpl; [constructor|now apply insert_sorted]. Qed.
Lemma isort_length l : length (isort leb l) = length l.
Proof. apply Permutation_length, isort_perm. Qed.
End SortP.

(* ================================================================== small list facts *)
Lemma filter_len_le {A} (f : A -> bool) l : length (filter f l) <= length l.
Proof. induction l as [|a r IH]; simpl; auto. destruct (f a); simpl; lia. Qed.
Lemma filter_length_eq_iff {A} (f : A -> bool) l : length (filter f l) = length l <-> forall x, In x l -> f x = true.
Proof.
  induction l as [|a r IH]; simpl.
  - split; [intros _ x []|auto].
  - pose proof (filter_len_le f r) as Hle. destruct (f a) eqn:E; simpl.
    + split.
      * intros H x [<-|Hx]; auto. apply IH; auto.
      * intros H. f_equal. apply IH. auto.
    + split; [lia|]. intros H. rewrite H in E; auto. discriminate.
Qed.

Lemma Sorted_impl {A} (P Q : A -> A -> Prop) l : (forall a b, P a b -> Q a b) -> Sorted P l -> Sorted Q l.
Proof.
  intros H. induction 1 as [|a r S IH Hd]; constructor; auto. inversion Hd; constructor; auto.
Qed.

Lemma Forall2_seq_nth {A} (P : nat -> A -> Prop) (t : list A) : forall a L,
  Forall2 P (seq a L) t <-> length t = L /\ forall i x, nth_error t i = Some x -> P (a + i) x.
Proof.
  induction t as [|c t IH]; intros a L.
  - split.
    + intros H. inversion H as [E|]. destruct L; [|discriminate]. split; auto. intros [|i] x; discriminate.
    + intros [H _]. simpl in H. subst L. constructor.
  - split.
    + intros H. destruct L as [|L]; [inversion H|]. simpl in H. inversion H as [|? ? ? ? Hc Hr]; subst.
      apply IH in Hr as [Hl Hr]. split; [simpl; lia|]. intros [|i] x Hx; simpl in Hx.
      * injection Hx as <-. now rewrite Nat.add_0_r.
      * replace (a + S i) with (S a + i) by lia. auto.
    + intros [Hl H]. destruct L as [|L]; [discriminate|]. simpl. constructor.
      * specialize (H 0 c eq_refl). now rewrite Nat.add_0_r in H.
      * apply IH. split; [simpl in Hl; lia|]. intros i x Hx. replace (S a + i) with (a + S i) by lia. apply H. exact Hx.
Qed.

Lemma Forall2_iff_in {A B} (P Q : A -> B -> Prop) la lb :
  (forall a b, In a la -> (P a b <-> Q a b)) -> (Forall2 P la lb <-> Forall2 Q la lb).
Proof.
  intros H. split; intros F; induction F; constructor; try (apply H; simpl; auto; fail);
    apply IHF; intros; apply H; simpl; auto.
Qed.

Lemma all2_Forall2 {A B} (f : A -> B -> bool) la lb : all2 f la lb = true <-> Forall2 (fun a b => f a b = true) la lb.
Proof.
  revert lb. induction la as [|a ra IH]; intros [|b rb]; simpl; split; intros H; try discriminate; try constructor;
    try (inversion H; fail).
  - apply andb_prop in H. tauto.
  - apply IH. apply andb_prop in H. tauto.
  - inversion H; subst. apply andb_true_intro. split; auto. now apply IH.
Qed.

(* ================================================================== np.unique *)
Lemma ins_uniq_In c l x : In x (ins_uniq c l) <-> x = c \/ In x l.
Proof.
  induction l as [|y r IH]; simpl.
  - intuition.
  - destruct (N.ltb c y) eqn:E1; simpl; [intuition|].
    destruct (N.eqb c y) eqn:E2; simpl.
    + apply N.eqb_eq in E2. subst. intuition.
    + rewrite IH. intuition.
Qed.
Lemma sort_uniq_In l x : In x (sort_uniq l) <-> In x l.
Proof.
  induction l as [|c r IH]; simpl; [tauto|]. rewrite ins_uniq_In, IH. intuition.
Qed.
Lemma ins_uniq_sorted c l : StronglySorted N.lt l -> StronglySorted N.lt (ins_uniq c l).
Proof.
  induction l as [|y r IH]; simpl; intros S.
  - repeat constructor.
  - inversion S as [|? ? S' F]; subst.
    destruct (N.ltb c y) eqn:E1.
    + apply N.ltb_lt in E1. constructor; auto. constructor; auto.
      eapply Forall_impl; [|exact F]. intros; simpl in *; lia.
    + destruct (N.eqb c y) eqn:E2; auto.
      apply N.ltb_ge in E1. apply N.eqb_neq in E2.
      constructor; auto. apply Forall_forall. intros x Hx. apply ins_uniq_In in Hx as [->|Hx].
      * lia.
      * rewrite Forall_forall in F. auto.
Qed.
Lemma sort_uniq_sorted l : StronglySorted N.lt (sort_uniq l).
Proof. induction l; simpl; [constructor|now apply ins_uniq_sorted]. Qed.
Lemma strict_sorted_NoDup l : StronglySorted N.lt l -> NoDup l.
Proof.
  induction 1 as [|a l S IH F]; constructor; auto.
  intros Hin. rewrite Forall_forall in F. specialize (F a Hin). lia.
Qed.
Lemma sort_uniq_NoDup l : NoDup (sort_uniq l).
Proof. apply strict_sorted_NoDup, sort_uniq_sorted. Qed.
Lemma strict_sorted_filter (f : N -> bool) l : StronglySorted N.lt l -> StronglySorted N.lt (filter f l).
Proof.
  induction 1 as [|a l S IH F]; simpl; [constructor|].
  destruct (f a); auto. constructor; auto.
  rewrite Forall_forall in *. intros x Hx. apply filter_In in Hx. apply F. tauto.
Qed.

(* ================================================================== the count matrix *)
Lemma alphabet_spec seqs c : In c (alphabet seqs) <-> residue c = true /\ exists s, In s seqs /\ In c s.
Proof.
  unfold alphabet. rewrite filter_In, sort_uniq_In, in_concat. split.
  - intros [(s & Hs & Hc) R]. split; auto. exists s; auto.
  - intros [R (s & Hs & Hc)]. split; auto. exists s; auto.
Qed.
Lemma alphabet_sorted seqs : StronglySorted N.lt (alphabet seqs).
Proof. apply strict_sorted_filter, sort_uniq_sorted. Qed.
Lemma alphabet_NoDup seqs : NoDup (alphabet seqs).
Proof. apply strict_sorted_NoDup, alphabet_sorted. Qed.

Lemma column_In seqs p c : In c (column seqs p) <-> exists s, In s seqs /\ nth_error s p = Some c.
Proof.
  unfold column. rewrite in_flat_map. split.
  - intros (s & Hs & Hc). exists s. split; auto. destruct (nth_error s p); simpl in Hc; [|tauto].
    destruct Hc as [->|[]]. reflexivity.
  - intros (s & Hs & Hc). exists s. split; auto. rewrite Hc. simpl; auto.
Qed.
Lemma column_length seqs p L : Forall (fun s => length s = L) seqs -> p < L -> length (column seqs p) = length seqs.
Proof.
  intros F Hp. induction F as [|s r Hs F IH]; simpl; auto.
  rewrite app_length, IH. destruct (nth_error s p) eqn:E; simpl; auto.
  apply nth_error_None in E. lia.
Qed.
Lemma column_alphabet seqs p c : In c (column seqs p) -> residue c = true -> In c (alphabet seqs).
Proof.
  intros Hc R. apply alphabet_spec. split; auto. apply column_In in Hc as (s & Hs & Hn).
  exists s. split; auto. eapply nth_error_In; eauto.
Qed.

(* number of sequences showing residue c at position p *)
Definition shows (p : nat) (c : N) (s : str) : bool :=
  match nth_error s p with Some x => N.eqb x c | None => false end.
Lemma cnt_spec seqs p c : cnt seqs p c = length (filter (shows p c) seqs).
Proof.
  unfold cnt, column. induction seqs as [|s r IH]; simpl; auto.
  rewrite count_occ_app, IH. unfold shows at 2. destruct (nth_error s p) as [x|]; simpl; auto.
  destruct (N.eq_dec x c) as [->|Hn].
  - rewrite N.eqb_refl. reflexivity.
  - apply N.eqb_neq in Hn. rewrite Hn. reflexivity.
Qed.
Lemma cnt_pos_iff seqs p c : 0 < cnt seqs p c <-> In c (column seqs p).
Proof. unfold cnt. symmetry. apply count_occ_In. Qed.

Lemma count_matrix_length seqs : length (count_matrix seqs) = width seqs.
Proof. unfold count_matrix. now rewrite map_length, seq_length. Qed.
Lemma count_matrix_entry seqs p j :
  p < width seqs -> j < length (alphabet seqs) ->
  nth j (nth p (count_matrix seqs) []) 0 = cnt seqs p (nth j (alphabet seqs) 0%N).
Proof.
  intros Hp Hj. unfold count_matrix.
  rewrite (nth_indep _ [] (count_row seqs 0)) by (now rewrite map_length, seq_length).
  rewrite map_nth, seq_nth by auto. simpl. unfold count_row.
  rewrite (nth_indep _ 0 (cnt seqs p 0%N)) by (now rewrite map_length).
  now rewrite map_nth.
Qed.

Lemma list_sum_map_add {A} (f g : A -> nat) l : list_sum (map (fun x => f x + g x) l) = list_sum (map f l) + list_sum (map g l).
Proof. induction l; simpl; lia. Qed.
Lemma list_sum_indicator (x : N) alpha : NoDup alpha ->
  list_sum (map (fun c => if N.eq_dec x c then 1 else 0) alpha) = if memb N.eq_dec x alpha then 1 else 0.
Proof.
  induction 1 as [|a l Hn ND IH]; simpl; auto.
  rewrite IH. destruct (N.eq_dec x a) as [->|Hne].
  - assert (M1 : memb N.eq_dec a l = false).
    { destruct (memb N.eq_dec a l) eqn:M; auto. apply memb_In in M. contradiction. }
    assert (M2 : memb N.eq_dec a (a :: l) = true) by (apply memb_In; simpl; auto).
    now rewrite M1, M2.
  - destruct (memb N.eq_dec x l) eqn:M.
    + assert (M2 : memb N.eq_dec x (a :: l) = true) by (apply memb_In; right; exact (proj1 (memb_In N.eq_dec x l) M)).
      now rewrite M2.
    + destruct (memb N.eq_dec x (a :: l)) eqn:M2; auto.
      apply memb_In in M2 as [->|M2]; [congruence|]. apply (proj2 (memb_In N.eq_dec x l)) in M2. congruence.
Qed.
Lemma sum_counts alpha col : NoDup alpha ->
  list_sum (map (count_occ N.eq_dec col) alpha) = length (filter (fun x => memb N.eq_dec x alpha) col).
Proof.
  intros ND. induction col as [|x r IH]; simpl.
  - induction alpha; simpl; auto. inversion ND; auto.
  - rewrite (map_ext _ (fun c => (if N.eq_dec x c then 1 else 0) + count_occ N.eq_dec r c)).
    + rewrite list_sum_map_add, IH, list_sum_indicator by auto.
      destruct (memb N.eq_dec x alpha); simpl; lia.
    + intros c. destruct (N.eq_dec x c); lia.
Qed.
Lemma row_total_spec seqs p : row_total seqs p = length (filter residue (column seqs p)).
Proof.
  unfold row_total, count_row, cnt. rewrite sum_counts by apply alphabet_NoDup.
  f_equal. apply filter_ext_in. intros x Hx.
  destruct (residue x) eqn:R.
  - apply memb_In. now apply column_alphabet with p.
  - destruct (memb N.eq_dec x (alphabet seqs)) eqn:M; auto.
    apply memb_In, alphabet_spec in M. destruct M; congruence.
Qed.

(* ================================================================== seqs_to_regex *)
Lemma observed_spec seqs p c : In c (observed seqs p) <-> residue c = true /\ In c (column seqs p).
Proof.
  unfold observed. rewrite filter_In. split.
  - intros [Ha Hc]. apply Nat.ltb_lt, cnt_pos_iff in Hc. split; auto. apply alphabet_spec in Ha. tauto.
  - intros [R Hc]. split; [now apply column_alphabet with p|]. now apply Nat.ltb_lt, cnt_pos_iff.
Qed.
Lemma observed_sorted seqs p : StronglySorted N.lt (observed seqs p).
Proof. apply strict_sorted_filter, alphabet_sorted. Qed.

Lemma optional_spec seqs p L : Forall (fun s => length s = L) seqs -> p < L ->
  (snd (item_at seqs p) = true <-> exists g, In g (column seqs p) /\ is_gap g = true).
Proof.
  intros F Hp. unfold item_at. cbn [snd]. pose proof (column_length seqs p L F Hp) as CL. unfold str in *. rewrite row_total_spec, <- CL.
  rewrite negb_true_iff, Nat.eqb_neq. split.
  - intros Hne. destruct (existsb is_gap (column seqs p)) eqn:E.
    + apply existsb_exists in E. exact E.
    + exfalso. apply Hne. apply filter_length_eq_iff. intros x Hx. unfold residue.
      destruct (is_gap x) eqn:G; auto.
      assert (existsb is_gap (column seqs p) = true) by (apply existsb_exists; eauto). congruence.
  - intros (g & Hg & G) Heq. rewrite filter_length_eq_iff in Heq. specialize (Heq g Hg). unfold residue in Heq.
    rewrite G in Heq. discriminate.
Qed.

Lemma matchesb_spec r : forall t, matchesb r t = true <-> rmatch r t.
Proof.
  induction r as [|[cls opt] r IH]; intros t; simpl.
  - destruct t; split; intros H; try constructor; try discriminate. inversion H.
  - split.
    + intros H. apply orb_prop in H as [H|H].
      * apply andb_prop in H as [-> H]. apply rm_skip. now apply IH.
      * destruct t as [|c t]; [discriminate|]. apply andb_prop in H as [Hc H].
        apply rm_take; [now apply memb_In in Hc|now apply IH].
    + intros H. inversion H; subst.
      * apply orb_true_intro. right. apply andb_true_intro. split; [now apply memb_In|now apply IH].
      * apply orb_true_intro. left. simpl. now apply IH.
Qed.

Definition opt_list (o : option N) : list N := match o with Some c => [c] | None => [] end.
Definition item_choice (it : item) (o : option N) : Prop :=
  match o with Some c => In c (fst it) | None => snd it = true end.
Lemma rmatch_choices r t : rmatch r t <-> exists ch, Forall2 item_choice r ch /\ t = flat_map opt_list ch.
Proof.
  split.
  - induction 1 as [|cls opt r c t Hc H (ch & F & E)|cls r t H (ch & F & E)].
    + exists []. split; constructor.
    + exists (Some c :: ch). split; [constructor; [exact Hc|exact F]|]. simpl. now rewrite E.
    + exists (None :: ch). split; [constructor; [reflexivity|exact F]|]. simpl. exact E.
  - intros (ch & F & E). subst t. induction F as [|[cls opt] o r ch Ho F IH]; simpl.
    + constructor.
    + destruct o as [c|]; simpl in *.
      * apply rm_take; auto.
      * subst opt. apply rm_skip; auto.
Qed.
Lemma Forall2_map_l {A B C} (f : A -> B) (P : B -> C -> Prop) la lc :
  Forall2 P (map f la) lc <-> Forall2 (fun a c => P (f a) c) la lc.
Proof.
  revert lc. induction la as [|a ra IH]; intros lc; simpl; split; intros H; inversion H; subst; constructor; auto;
    now apply IH.
Qed.

(* what may stand at position p of an accepted string: a residue observed there, or nothing if some input has a gap there *)
Definition choice_ok (seqs : list str) (p : nat) (o : option N) : Prop :=
  match o with
  | Some c => residue c = true /\ exists s, In s seqs /\ nth_error s p = Some c
  | None => exists s g, In s seqs /\ nth_error s p = Some g /\ is_gap g = true
  end.

Theorem regex_language seqs L t : Forall (fun s => length s = L) seqs -> seqs <> [] ->
  (rmatch (regex_of seqs) t <-> exists ch, Forall2 (choice_ok seqs) (seq 0 L) ch /\ t = flat_map opt_list ch).
Proof.
  intros F Hne. assert (W : width seqs = L).
  { unfold width. destruct seqs as [|s r]; [congruence|]. inversion F; auto. }
  rewrite rmatch_choices. unfold regex_of. rewrite W.
  assert (K : forall ch, Forall2 item_choice (map (item_at seqs) (seq 0 L)) ch <-> Forall2 (choice_ok seqs) (seq 0 L) ch).
  { intros ch. rewrite Forall2_map_l. apply Forall2_iff_in. intros p o Hp. apply in_seq in Hp.
    destruct o as [c|]; simpl.
    - rewrite observed_spec, column_In. tauto.
    - rewrite (optional_spec seqs p L F) by lia. split.
      + intros (g & Hg & G). apply column_In in Hg as (s & Hs & Hn). eauto.
      + intros (s & g & Hs & Hn & G). exists g. split; auto. apply column_In. eauto. }
  split; intros (ch & H & E); exists ch; split; auto; now apply K.
Qed.

Lemma strip_gaps_choices s : strip_gaps s = flat_map opt_list (map (fun c => if residue c then Some c else None) s).
Proof.
  induction s as [|c s IH]; simpl; auto. destruct (residue c); simpl; now rewrite IH.
Qed.

(* every input, with its gaps removed, is fully matched *)
Theorem regex_inputs seqs L s : Forall (fun s => length s = L) seqs -> In s seqs ->
  rmatch (regex_of seqs) (strip_gaps s).
Proof.
  intros F Hs. assert (Hne : seqs <> []) by (intros ->; inversion Hs).
  apply (regex_language seqs L _ F Hne).
  exists (map (fun c => if residue c then Some c else None) s). split; [|apply strip_gaps_choices].
  apply Forall2_seq_nth. rewrite map_length. rewrite Forall_forall in F. split; [now apply F|].
  intros i o Ho. simpl. rewrite nth_error_map in Ho. destruct (nth_error s i) as [c|] eqn:E; [|discriminate].
  simpl in Ho. injection Ho as <-. destruct (residue c) eqn:R; simpl.
  - split; auto. eauto.
  - exists s, c. repeat split; auto. unfold residue in R. now apply negb_false_iff in R.
Qed.

(* gapless input: the accepted strings are exactly those of the common length built from residues observed at each position *)
Definition gapless (seqs : list str) : Prop := forall s c, In s seqs -> In c s -> is_gap c = false.
Theorem regex_exact seqs L t : Forall (fun s => length s = L) seqs -> seqs <> [] -> gapless seqs ->
  (rmatch (regex_of seqs) t <->
   length t = L /\ forall p c, nth_error t p = Some c -> exists s, In s seqs /\ nth_error s p = Some c).
Proof.
  intros F Hne G. rewrite (regex_language seqs L t F Hne). split.
  - intros (ch & H & ->).
    assert (K : ch = map Some (flat_map opt_list ch) /\ Forall2 (fun p c => exists s, In s seqs /\ nth_error s p = Some c) (seq 0 L) (flat_map opt_list ch)).
    { clear Hne F. induction H as [|p o ps ch Ho H [IH1 IH2]]; simpl; [split; [reflexivity|constructor]|].
      destruct o as [c|]; simpl in *.
      - split; [now rewrite <- IH1|]. constructor; tauto.
      - destruct Ho as (s & g & Hs & Hn & Hg). apply nth_error_In in Hn. rewrite (G s g Hs Hn) in Hg. discriminate. }
    destruct K as [_ K]. apply Forall2_seq_nth in K. exact K.
  - intros [Hl H]. exists (map Some t). split.
    + apply Forall2_seq_nth. rewrite map_length. split; auto. intros i o Ho. rewrite nth_error_map in Ho.
      destruct (nth_error t i) as [c|] eqn:E; [|discriminate]. injection Ho as <-. simpl.
      destruct (H i c E) as (s & Hs & Hn). split; eauto. unfold residue. apply nth_error_In in Hn. now rewrite (G s c Hs Hn).
    + clear. induction t; simpl; congruence.
Qed.

(* the concrete string: classes are strictly increasing, bracketed iff more than one member, '?' iff optional *)
Lemma render_item_spec cls opt : render_item (cls, opt) =
  (match cls with _ :: _ :: _ => [91%N] ++ cls ++ [93%N] | _ => cls end) ++ (if opt then [63%N] else []).
Proof. unfold render_item. simpl. destruct cls as [|a [|b r]]; reflexivity. Qed.

(* ================================================================== seqs_to_consensus *)
Lemma argmax_first_spec f l c : argmax_first f l = Some c -> In c l /\ forall d, In d l -> f d <= f c.
Proof.
  revert c. induction l as [|a r IH]; simpl; intros c H; [discriminate|].
  destruct (argmax_first f r) as [d|] eqn:E.
  - destruct (IH d eq_refl) as [Hd Hmax]. destruct (Nat.ltb (f a) (f d)) eqn:Lt; injection H as <-.
    + apply Nat.ltb_lt in Lt. split; auto. intros x [<-|Hx]; [lia|auto].
    + apply Nat.ltb_ge in Lt. split; auto. intros x [<-|Hx]; [lia|]. specialize (Hmax x Hx). lia.
  - injection H as <-. destruct r; [|simpl in E; destruct (argmax_first f r); [destruct (Nat.ltb _ _)|]; discriminate].
    split; auto. intros x [<-|[]]. lia.
Qed.
Lemma argmax_first_some f l : l <> [] -> exists c, argmax_first f l = Some c.
Proof.
  destruct l as [|a r]; [congruence|]. intros _. simpl. destruct (argmax_first f r) as [d|]; [|eauto].
  destruct (Nat.ltb (f a) (f d)); eauto.
Qed.

(* c is a most frequent residue of column p (and occurs there) *)
Definition mode_at (seqs : list str) (p : nat) (c : N) : Prop :=
  residue c = true /\ 0 < cnt seqs p c /\ forall d, residue d = true -> cnt seqs p d <= cnt seqs p c.

Lemma cnt_not_alphabet seqs p d : residue d = true -> ~ In d (alphabet seqs) -> cnt seqs p d = 0.
Proof.
  intros R Hn. destruct (cnt seqs p d) eqn:E; auto. exfalso. apply Hn.
  apply column_alphabet with p; auto. apply cnt_pos_iff. lia.
Qed.
Lemma is_mode_spec seqs p c : is_mode seqs p c = true <-> mode_at seqs p c.
Proof.
  unfold is_mode, mode_at. rewrite !andb_true_iff, Nat.ltb_lt, forallb_forall. split.
  - intros [[R P] H]. repeat split; auto. intros d Rd.
    destruct (in_dec N.eq_dec d (alphabet seqs)) as [i|n].
    + now apply Nat.leb_le, H.
    + rewrite (cnt_not_alphabet seqs p d Rd n). lia.
  - intros (R & P & H). repeat split; auto. intros d Hd. apply Nat.leb_le, H. apply alphabet_spec in Hd. tauto.
Qed.
Lemma consensus_ok_spec seqs out : consensus_ok seqs out = true <-> Forall2 (mode_at seqs) (kept_positions seqs) out.
Proof.
  unfold consensus_ok. rewrite all2_Forall2. apply Forall2_iff_in. intros p c _. apply is_mode_spec.
Qed.

Lemma kept_has_residue seqs p : seqs <> [] -> kept_col seqs p = true -> 0 < row_total seqs p.
Proof.
  intros Hne K. unfold kept_col in K. apply negb_true_iff, Nat.ltb_ge in K.
  assert (0 < length seqs) by (destruct seqs; [congruence|simpl; lia]).
  pose proof (Nat.div_lt (length seqs) 2 H). lia.
Qed.
Lemma row_total_pos seqs p : 0 < row_total seqs p -> exists d, In d (alphabet seqs) /\ 0 < cnt seqs p d.
Proof.
  rewrite row_total_spec. destruct (filter residue (column seqs p)) as [|d r] eqn:E; simpl; [lia|]. intros _.
  assert (Hd : In d (filter residue (column seqs p))) by (rewrite E; simpl; auto).
  apply filter_In in Hd as [Hc R]. exists d. split; [now apply column_alphabet with p|now apply cnt_pos_iff].
Qed.
Lemma kept_argmax seqs p : seqs <> [] -> kept_col seqs p = true ->
  exists c, argmax_first (cnt seqs p) (alphabet seqs) = Some c /\ mode_at seqs p c.
Proof.
  intros Hne K. destruct (row_total_pos seqs p (kept_has_residue seqs p Hne K)) as (d & Hd & Pd).
  destruct (argmax_first_some (cnt seqs p) (alphabet seqs)) as [c Hc]; [intros E; rewrite E in Hd; inversion Hd|].
  exists c. split; auto. destruct (argmax_first_spec _ _ _ Hc) as [Hin Hmax].
  repeat split.
  - apply alphabet_spec in Hin. tauto.
  - specialize (Hmax d Hd). lia.
  - intros x Rx. destruct (in_dec N.eq_dec x (alphabet seqs)) as [i|n]; auto.
    rewrite (cnt_not_alphabet seqs p x Rx n). lia.
Qed.

Lemma consensus_cols_gen seqs ps : seqs <> [] ->
  let cols := flat_map (fun p => if kept_col seqs p
                     then match argmax_first (cnt seqs p) (alphabet seqs) with Some c => [(p, c)] | None => [] end
                     else []) ps in
  map fst cols = filter (kept_col seqs) ps /\ Forall2 (mode_at seqs) (filter (kept_col seqs) ps) (map snd cols).
Proof.
  intros Hne. induction ps as [|p ps [IH1 IH2]]; simpl; [split; [reflexivity|constructor]|].
  destruct (kept_col seqs p) eqn:K; [|split; assumption].
  destruct (kept_argmax seqs p Hne K) as (c & -> & M). simpl. split; [now f_equal|constructor; auto].
Qed.
(* the consensus has one letter per kept column, each a most frequent residue of its column *)
Theorem consensus_mode seqs : seqs <> [] ->
  map fst (consensus_cols seqs) = kept_positions seqs /\
  Forall2 (mode_at seqs) (kept_positions seqs) (consensus seqs).
Proof. intros Hne. exact (consensus_cols_gen seqs (seq 0 (width seqs)) Hne). Qed.
Theorem consensus_ok_model seqs : seqs <> [] -> consensus_ok seqs (consensus seqs) = true.
Proof. intros Hne. apply consensus_ok_spec, consensus_mode, Hne. Qed.

(* gap-free input of equal length: every column is kept *)
Lemma kept_gapless seqs L : Forall (fun s => length s = L) seqs -> seqs <> [] -> gapless seqs -> kept_positions seqs = seq 0 L.
Proof.
  intros F Hne G. assert (W : width seqs = L).
  { unfold width. destruct seqs as [|s r]; [congruence|]. inversion F; auto. }
  unfold kept_positions. rewrite W.
  assert (K : forall p, In p (seq 0 L) -> kept_col seqs p = true).
  { intros p Hp. apply in_seq in Hp. unfold kept_col. apply negb_true_iff, Nat.ltb_ge.
    rewrite row_total_spec. pose proof (column_length seqs p L F) as CL. unfold str in *.
    replace (length (filter residue (column seqs p))) with (length seqs); [lia|].
    rewrite <- CL by lia. symmetry. apply filter_length_eq_iff. intros x Hx.
    apply column_In in Hx as (s & Hs & Hn). apply nth_error_In in Hn. unfold residue. now rewrite (G s x Hs Hn). }
  induction (seq 0 L) as [|p ps IH]; simpl; auto. rewrite K by (simpl; auto). f_equal. apply IH. intros; apply K; simpl; auto.
Qed.

(* ================================================================== rankfrequency *)
Open Scope Q_scope.
Lemma qge_total a b : qge_bool a b = true \/ qge_bool b a = true.
Proof. unfold qge_bool. rewrite !Qle_bool_iff. destruct (Qlt_le_dec a b); [right; now apply Qlt_le_weak|left; auto]. Qed.
Lemma qzero_spec q : qzero q = true <-> q == 0.
Proof. unfold qzero, Qeq. simpl. rewrite Z.eqb_eq. lia. Qed.
Lemma qsum_div l s : ~ s == 0 -> qsum (map (fun v => v / s) l) == qsum l / s.
Proof. intros Hs. induction l as [|a r IH]; simpl; [field; auto|]. rewrite IH. field; auto. Qed.
Lemma desc_sorted l : StronglySorted (fun a b => b <= a) (isort qge_bool l).
Proof.
  apply Sorted_StronglySorted.
  - intros a b c H1 H2. eapply Qle_trans; eauto.
  - apply (Sorted_impl (fun a b => qge_bool a b = true)); [|apply isort_sorted, qge_total].
    intros a b H. now apply Qle_bool_iff.
Qed.
Definition norm_of (normy : bool) (m : nat) : Q := if normy then qnat m else 1.

(* the drawn curve: xs = the (normalised) non-missing values in descending order (times scalex),
   ys = the 0-based ranks (times scaley, over the number of points when normalize_y) *)
Theorem rank_spec normx normy sx sy data xs ys : rank_xy normx normy sx sy data = Some (xs, ys) ->
  exists base ds,
    normalised normx (nonmissing data) = Some base /\
    Permutation ds base /\ StronglySorted (fun a b => b <= a) ds /\
    xs = map (fun v => v * sx) ds /\
    ys = map (fun r => sy * qnat r / norm_of normy (length ds)) (seq 0 (length ds)) /\
    length ds = length (nonmissing data).
Proof.
  unfold rank_xy, rank_x. destruct (normalised normx (nonmissing data)) as [base|] eqn:E; simpl; [|discriminate].
  intros H. injection H as <- <-. exists base, (isort qge_bool base). repeat split.
  - apply isort_perm.
  - apply desc_sorted.
  - unfold rank_y, norm_of. now rewrite map_length.
  - rewrite isort_length. unfold normalised in E. destruct normx; [|now injection E as <-].
    destruct (qzero _).
    + destruct (nonmissing data); [now injection E as <-|discriminate].
    + injection E as <-. now rewrite map_length.
Qed.
(* what "normalised" means: the plain values, or the values divided by their non-zero sum (so they sum to one) *)
Theorem normalised_spec normx l base : normalised normx l = Some base ->
  if normx then base = map (fun v => v / qsum l) l /\ (l <> [] -> ~ qsum l == 0 /\ qsum base == 1) else base = l.
Proof.
  unfold normalised. destruct normx; [|now intros [= <-]].
  destruct (qzero (qsum l)) eqn:Z.
  - destruct l; [|discriminate]. intros [= <-]. split; [reflexivity|congruence].
  - intros [= <-].
    assert (Hs : ~ qsum l == 0) by (intros H; apply qzero_spec in H; congruence).
    repeat split; auto. rewrite qsum_div by auto. field; auto.
Qed.
Lemma normalised_none normx l : normalised normx l = None <-> normx = true /\ l <> [] /\ qsum l == 0.
Proof.
  unfold normalised. destruct normx; [|split; [discriminate|intros [? _]; discriminate]].
  destruct (qzero (qsum l)) eqn:Z.
  - apply qzero_spec in Z. destruct l; [|split; [intros _; repeat split; [discriminate|exact Z]|reflexivity]].
    split; [discriminate|]. intros (_ & H & _). congruence.
  - split; [discriminate|]. intros (_ & _ & H). apply qzero_spec in H. congruence.
Qed.
Lemma nonmissing_In data q : In q (nonmissing data) <-> In (Some q) data.
Proof.
  unfold nonmissing. rewrite in_flat_map. split.
  - intros ([x|] & Hx & Hq); simpl in Hq; [|tauto]. destruct Hq as [->|[]]. auto.
  - intros H. exists (Some q). simpl; auto.
Qed.
Close Scope Q_scope.

(* ================================================================== labels_to_colors_* *)
Lemma index_of_some c l i : index_of c l = Some i -> nth_error l i = Some c.
Proof.
  revert i. induction l as [|x r IH]; simpl; intros i H; [discriminate|].
  destruct (N.eqb c x) eqn:E.
  - injection H as <-. apply N.eqb_eq in E. now subst.
  - destruct (index_of c r) as [k|]; [|discriminate]. injection H as <-. simpl. now apply IH.
Qed.
Lemma index_of_none c l : index_of c l = None <-> ~ In c l.
Proof.
  induction l as [|x r IH]; simpl; [tauto|]. destruct (N.eqb c x) eqn:E.
  - apply N.eqb_eq in E. subst. split; [discriminate|]. intros H. exfalso. auto.
  - apply N.eqb_neq in E. destruct (index_of c r); simpl.
    + split; [discriminate|]. intros H. assert (Hn : ~ In c r) by tauto. apply IH in Hn. discriminate.
    + split; auto. intros _ [H|H]; [congruence|]. now apply IH in H.
Qed.
Lemma index_of_lt c l i : index_of c l = Some i -> i < length l.
Proof. intros H. apply index_of_some in H. apply nth_error_Some. congruence. Qed.
Lemma index_of_inj c d l i : index_of c l = Some i -> index_of d l = Some i -> c = d.
Proof. intros H1 H2. apply index_of_some in H1, H2. congruence. Qed.

Lemma frequent_spec mc labels c : In c (frequent mc labels) <->
  In c labels /\ match mc with None => True | Some m => m <= lcount labels c end.
Proof.
  unfold frequent. rewrite filter_In, sort_uniq_In. destruct mc as [m|]; [rewrite Nat.leb_le|]; tauto.
Qed.
Lemma frequent_NoDup mc labels : NoDup (frequent mc labels).
Proof. apply strict_sorted_NoDup, strict_sorted_filter, sort_uniq_sorted. Qed.
Lemma valid_order_perm mc labels order : valid_order mc labels order = true -> Permutation order (frequent mc labels).
Proof.
  unfold valid_order. intros H. apply andb_prop in H as [Hl He]. apply Nat.eqb_eq in Hl.
  destruct (list_eq_dec N.eq_dec (sort_uniq order) (frequent mc labels)) as [E|]; [|discriminate].
  symmetry. apply NoDup_Permutation_bis; [apply frequent_NoDup|lia|].
  intros x Hx. rewrite <- E in Hx. exact (proj1 (sort_uniq_In order x) Hx).
Qed.

Section ColoursP.
Context {C : Type}.
Variable pal : nat -> C.
Variable black : C.
Variables (mc : option nat) (labels order : list N).
Hypothesis Hperm : Permutation order (frequent mc labels).

(* equal labels get equal colours *)
Lemma colours_equal i j : nth_error labels i = nth_error labels j ->
  nth_error (colours pal black order labels) i = nth_error (colours pal black order labels) j.
Proof. unfold colours. rewrite !nth_error_map. now intros ->. Qed.
Lemma colours_nth i c : nth_error labels i = Some c ->
  nth_error (colours pal black order labels) i = Some (colour_of pal black order c).
Proof. unfold colours. rewrite nth_error_map. now intros ->. Qed.
(* labels rarer than min_count are black *)
Lemma colour_rare m c : mc = Some m -> lcount labels c < m -> colour_of pal black order c = black.
Proof.
  intros -> Hlt. unfold colour_of. destruct (index_of c order) as [i|] eqn:E; auto.
  exfalso. apply index_of_some, nth_error_In in E. apply (Permutation_in _ Hperm), frequent_spec in E. lia.
Qed.
(* frequent labels take a palette slot below the number of frequent labels, distinct labels distinct slots *)
Lemma colour_frequent c : In c (frequent mc labels) ->
  exists i, i < length (frequent mc labels) /\ index_of c order = Some i /\ colour_of pal black order c = pal i.
Proof.
  intros Hc. apply (Permutation_in _ (Permutation_sym Hperm)) in Hc.
  unfold colour_of. destruct (index_of c order) as [i|] eqn:E.
  - exists i. repeat split; auto. rewrite <- (Permutation_length Hperm). now apply index_of_lt with c.
  - apply index_of_none in E. contradiction.
Qed.
Lemma colours_distinct c d :
  (forall i j, i < length (frequent mc labels) -> j < length (frequent mc labels) -> pal i = pal j -> i = j) ->
  In c (frequent mc labels) -> In d (frequent mc labels) -> c <> d ->
  colour_of pal black order c <> colour_of pal black order d.
Proof.
  intros Hinj Hc Hd Hne. destruct (colour_frequent c Hc) as (i & Li & Ei & ->).
  destruct (colour_frequent d Hd) as (j & Lj & Ej & ->). intros E.
  apply Hinj in E; auto. subst j. apply Hne. now apply index_of_inj with order i.
Qed.
Lemma colour_frequent_not_black c : (forall i, pal i <> black) -> In c (frequent mc labels) -> colour_of pal black order c <> black.
Proof. intros Hb Hc. destruct (colour_frequent c Hc) as (i & _ & _ & ->). apply Hb. Qed.
End ColoursP.

(* ================================================================== density_scatter(discrete=True) *)
Lemma lex_total a b : lex_leb a b = true \/ lex_leb b a = true.
Proof.
  unfold lex_leb. destruct a as [a1 a2], b as [b1 b2]. simpl.
  rewrite !orb_true_iff, !andb_true_iff, !Z.ltb_lt, !Z.eqb_eq, !Z.leb_le. lia.
Qed.
Lemma by_count_total a b : by_count a b = true \/ by_count b a = true.
Proof. unfold by_count. rewrite !Nat.leb_le. lia. Qed.

Section Discrete.
Variables xs ys : list Z.
Let pts := combine xs ys.
Lemma discrete_fst : map fst (discrete_points xs ys) = isort lex_leb (nodup zpair_eq_dec pts).
Proof. unfold discrete_points. fold pts. rewrite map_map. simpl. apply map_id. Qed.
(* each distinct point once *)
Lemma discrete_NoDup : NoDup (map fst (discrete_points xs ys)).
Proof.
  rewrite discrete_fst. eapply Permutation_NoDup; [symmetry; apply isort_perm|apply NoDup_nodup].
Qed.
(* ... carrying its multiplicity; every input point is drawn *)
Lemma discrete_In p c : In (p, c) (discrete_points xs ys) <-> In p pts /\ c = count_occ zpair_eq_dec pts p.
Proof.
  unfold discrete_points. fold pts. rewrite in_map_iff. split.
  - intros (q & [= -> <-] & Hq). split; auto.
    apply (Permutation_in _ (isort_perm lex_leb _)) in Hq. now apply nodup_In in Hq.
  - intros [Hp ->]. exists p. split; auto.
    apply (Permutation_in _ (Permutation_sym (isort_perm lex_leb _))). now apply nodup_In.
Qed.
Lemma discrete_count_pos p c : In (p, c) (discrete_points xs ys) -> 0 < c.
Proof. intros H. apply discrete_In in H as [Hp ->]. now apply count_occ_In. Qed.
Lemma discrete_lex_sorted : Sorted (fun a b => lex_leb a b = true) (map fst (discrete_points xs ys)).
Proof. rewrite discrete_fst. apply isort_sorted, lex_total. Qed.
(* the multiplicities add up to the number of input points *)
Lemma discrete_sorted_perm : Permutation (discrete_sorted xs ys) (discrete_points xs ys).
Proof. apply isort_perm. Qed.
Lemma discrete_sorted_asc : Sorted (fun a b => snd a <= snd b) (discrete_sorted xs ys).
Proof.
  apply (Sorted_impl (fun a b => by_count a b = true)); [|apply isort_sorted, by_count_total].
  intros a b H. now apply Nat.leb_le.
Qed.
End Discrete.

(* ================================================================== similarity_clustermap *)
Lemma mat_tab_length m f : length (mat_tab m f) = m.
Proof. unfold mat_tab. now rewrite map_length, seq_length. Qed.
Lemma mget_mat_tab m f i j : i < m -> j < m -> mget (mat_tab m f) i j = f i j.
Proof.
  intros Hi Hj. unfold mget, mat_tab.
  rewrite (nth_indep _ [] (map (f 0) (seq 0 m))) by (now rewrite map_length, seq_length).
  rewrite (map_nth (fun i => map (f i) (seq 0 m))), seq_nth by auto. simpl.
  rewrite (nth_indep _ 0 (f i 0)) by (now rewrite map_length, seq_length).
  rewrite (map_nth (f i)), seq_nth by auto. reflexivity.
Qed.

Lemma split_matrix_entry Lo Up order i j : i < length order -> j < length order ->
  mget (split_matrix Lo Up order) i j =
  (if Nat.leb j i then mget Lo (nth i order 0) (nth j order 0) else 0) +
  (if Nat.leb i j then mget Up (nth i order 0) (nth j order 0) else 0).
Proof.
  intros Hi Hj. unfold split_matrix, madd, tril, triu, reorder. rewrite !mat_tab_length.
  rewrite mget_mat_tab by auto. rewrite !mget_mat_tab by auto. reflexivity.
Qed.

Lemma square_pdist seqs i j : i < length seqs -> j < length seqs ->
  mget (square (length seqs) (pdist_lev seqs)) i j = slev (nth i seqs []) (nth j seqs []).
Proof.
  intros Hi Hj. unfold square. rewrite mget_mat_tab by auto. unfold pdist_lev.
  destruct (Nat.ltb i j) eqn:E1.
  - apply Nat.ltb_lt in E1. rewrite (nth_error_nth _ _ 0 (pdist_loop_nth slev_x [] seqs i j E1 Hj)). apply slev_x_spec.
  - destruct (Nat.ltb j i) eqn:E2.
    + apply Nat.ltb_lt in E2. rewrite (nth_error_nth _ _ 0 (pdist_loop_nth slev_x [] seqs j i E2 Hi)).
      rewrite slev_x_spec. unfold slev. apply lev_sym.
    + apply Nat.ltb_ge in E1, E2. assert (i = j) by lia. subst j. unfold slev. symmetry. apply lev_refl.
Qed.

(* heat map in dendrogram order: alpha-chain distances below, beta-chain distances above the diagonal, zero on it *)
Theorem clustermap_split alpha beta order i j :
  length alpha = length beta -> Forall (fun k => k < length alpha) order ->
  i < length order -> j < length order ->
  mget (clustermap_matrix alpha beta order) i j =
    if Nat.ltb j i then slev (nth (nth i order 0) alpha []) (nth (nth j order 0) alpha [])
    else if Nat.ltb i j then slev (nth (nth i order 0) beta []) (nth (nth j order 0) beta [])
    else 0.
Proof.
  intros Hl F Hi Hj. unfold clustermap_matrix. rewrite split_matrix_entry by auto.
  rewrite Forall_forall in F.
  assert (Oi : nth i order 0 < length alpha) by (apply F, nth_In; auto).
  assert (Oj : nth j order 0 < length alpha) by (apply F, nth_In; auto).
  rewrite square_pdist by auto. rewrite square_pdist by lia.
  destruct (Nat.ltb j i) eqn:E1.
  - apply Nat.ltb_lt in E1. destruct (Nat.leb j i) eqn:E3; [|apply Nat.leb_gt in E3; lia].
    destruct (Nat.leb i j) eqn:E4; [apply Nat.leb_le in E4; lia|]. lia.
  - apply Nat.ltb_ge in E1. destruct (Nat.ltb i j) eqn:E2.
    + apply Nat.ltb_lt in E2. destruct (Nat.leb j i) eqn:E3; [apply Nat.leb_le in E3; lia|].
      destruct (Nat.leb i j) eqn:E4; [|apply Nat.leb_gt in E4; lia]. lia.
    + apply Nat.ltb_ge in E2. assert (i = j) by lia. subst j. rewrite Nat.leb_refl.
      unfold slev. rewrite !lev_refl. reflexivity.
Qed.
Lemma mat_tab_row_length m f i : i < m -> length (nth i (mat_tab m f) []) = m.
Proof.
  intros Hi. unfold mat_tab. set (g := fun i => map (f i) (seq 0 m)).
  rewrite (nth_indep _ [] (g 0)) by (now rewrite map_length, seq_length).
  rewrite (map_nth g). unfold g. now rewrite map_length, seq_length.
Qed.
Lemma clustermap_matrix_shape alpha beta order :
  length (clustermap_matrix alpha beta order) = length order /\
  forall i, i < length order -> length (nth i (clustermap_matrix alpha beta order) []) = length order.
Proof.
  unfold clustermap_matrix, split_matrix, madd, tril, triu, reorder. rewrite !mat_tab_length. split; auto.
  intros i Hi. now apply mat_tab_row_length.
Qed.

Lemma vadd_length a b : length (vadd a b) = Nat.min (length a) (length b).
Proof. revert b. induction a as [|x ra IH]; intros [|y rb]; simpl; auto. Qed.
Lemma vadd_nth a b k : k < length a -> k < length b -> nth k (vadd a b) 0 = nth k a 0 + nth k b 0.
Proof.
  revert b k. induction a as [|x ra IH]; intros [|y rb] [|k]; simpl; intros; try lia. apply IH; lia.
Qed.
(* the clustered vector: entry of the pair (i,j), i<j, in SciPy's condensed layout is the sum of the two chain distances *)
Theorem summed_distances_spec alpha beta i j : length alpha = length beta -> i < j -> j < length alpha ->
  length (summed_distances alpha beta) = length alpha * (length alpha - 1) / 2 /\
  nth (cidx (length alpha) i j) (summed_distances alpha beta) 0 =
    slev (nth i alpha []) (nth j alpha []) + slev (nth i beta []) (nth j beta []).
Proof.
  intros Hl Hij Hj. unfold summed_distances, pdist_lev.
  pose proof (pdist_loop_length slev_x [] alpha) as La. pose proof (pdist_loop_length slev_x [] beta) as Lb.
  split.
  - rewrite vadd_length, La, Lb, <- Hl. apply Nat.min_id.
  - pose proof (pdist_loop_nth slev_x [] alpha i j Hij Hj) as Na.
    pose proof (pdist_loop_nth slev_x [] beta i j Hij) as Nb. rewrite <- Hl in Nb. specialize (Nb Hj).
    assert (Ka : cidx (length alpha) i j < length (pdist_loop slev_x [] alpha)) by (apply nth_error_Some; congruence).
    assert (Kb : cidx (length alpha) i j < length (pdist_loop slev_x [] beta)) by (apply nth_error_Some; congruence).
    rewrite vadd_nth by auto.
    rewrite (nth_error_nth _ _ 0 Na), (nth_error_nth _ _ 0 Nb), !slev_x_spec. reflexivity.
Qed.
