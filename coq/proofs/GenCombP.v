(* The deletion-variant generator regenerated from today's nn._comb_gen (coq/gen/Gen_c01.v) yields exactly the
   variants of the hand-written model comb_gen (model/Symdel.v), i.e. the strings reachable by at most k deletions.
   Route: the slice loop over an increasing position list idx deletes exactly those positions (delpos), a position
   list is a combination of range(len) iff such a derivation exists, and del n s c <-> some idx of length n. No axioms. *)
From Coq Require Import List NArith Arith Lia.
From PV Require Import lib.Edits lib.Str lib.Combinations proofs.CombinationsP model.Symdel proofs.SymdelP gen.Gen_c01.
Import ListNotations.

Section DelPos.
Context {A : Type}.

(* the body of the inner loop: new_seq.append(seq[offset:index]); offset = index+1 *)
Definition slice_step (s : list A) (st : list (list A) * nat) (i : nat) : list (list A) * nat :=
  let '(p, o) := st in (p ++ [slice s o i], i + 1).
(* one pass of the loop over a position tuple, the closing append and the join *)
Definition del_at (s : list A) (idx : list nat) : list A :=
  let '(p, o) := fold_left (slice_step s) idx ([], 0) in concat (p ++ [slice s o (length s)]).

(* delpos j t idx c: c is t without the letters at the positions idx, where the first letter of t has position j *)
Inductive delpos : nat -> list A -> list nat -> list A -> Prop :=
| DP_nil j : delpos j [] [] []
| DP_keep j x t idx c : delpos (S j) t idx c -> delpos j (x :: t) idx (x :: c)
| DP_drop j x t idx c : delpos (S j) t idx c -> delpos j (x :: t) (j :: idx) c.

Lemma delpos_del j t idx c : delpos j t idx c -> del (length idx) t c.
Proof. induction 1; simpl; constructor; auto. Qed.

Lemma delpos_sublist j t idx c : delpos j t idx c -> sublist idx (seq j (length t)).
Proof. induction 1; simpl; constructor; auto. Qed.

Lemma sublist_delpos t : forall j idx, sublist idx (seq j (length t)) -> exists c, delpos j t idx c.
Proof.
  induction t as [|x t IH]; intros j idx H; simpl in H.
  - apply sublist_nil_r in H. subst. exists []. constructor.
  - inversion H as [|y c' l' Hs|y c' l' Hs]; subst.
    + destruct (IH _ _ Hs) as (c & Hc). exists c. now constructor.
    + destruct (IH _ _ Hs) as (c & Hc). exists (x :: c). now constructor.
Qed.

Lemma del_delpos n t c : del n t c -> forall j, exists idx, delpos j t idx c /\ length idx = n.
Proof.
  induction 1 as [|n x a c _ IH|n x a c _ IH]; intros j.
  - exists []. split; [constructor|reflexivity].
  - destruct (IH (S j)) as (idx & H & L). exists idx. split; [now constructor|assumption].
  - destruct (IH (S j)) as (idx & H & L). exists (j :: idx). split; [now constructor|simpl; lia].
Qed.

(* the loop, started anywhere at or before the current position with the letters in between still pending *)
Lemma delpos_loop j t idx c : delpos j t idx c ->
  forall s pre p o, s = pre ++ t -> length pre = j -> o <= j ->
  (let '(p', o') := fold_left (slice_step s) idx (p, o) in concat (p' ++ [slice s o' (length s)]))
  = concat p ++ slice s o j ++ c.
Proof.
  induction 1 as [j|j x t idx c _ IH|j x t idx c _ IH]; intros s pre p o Hs Hl Ho.
  - simpl. rewrite app_nil_r in Hs. subst s. rewrite concat_app. simpl. rewrite !app_nil_r. now subst j.
  - assert (Hs' : s = (pre ++ [x]) ++ t) by (rewrite <- app_assoc; exact Hs).
    rewrite (IH s (pre ++ [x]) p o Hs') by (rewrite ?app_length; simpl; lia).
    rewrite (slice_snoc s o j x) by (subst s; rewrite ?app_length; simpl; lia).
    subst s j. rewrite nth_middle_len. now rewrite <- !app_assoc.
  - assert (Hs' : s = (pre ++ [x]) ++ t) by (rewrite <- app_assoc; exact Hs).
    simpl fold_left.
    rewrite (IH s (pre ++ [x]) (p ++ [slice s o j]) (j + 1) Hs') by (rewrite ?app_length; simpl; lia).
    rewrite Nat.add_1_r, slice_empty, concat_app. simpl. rewrite app_nil_r. now rewrite <- app_assoc.
Qed.

Lemma delpos_del_at s idx c : delpos 0 s idx c -> del_at s idx = c.
Proof.
  intros H. unfold del_at.
  rewrite (delpos_loop _ _ _ _ H s [] [] 0 eq_refl eq_refl (le_n 0)). now rewrite slice_empty.
Qed.

Lemma del_zero (a c : list A) : del 0 a c -> c = a.
Proof.
  intros H. remember 0 as n eqn:E. induction H; try discriminate; auto. f_equal; auto.
Qed.

(* deleting a combination of r positions is an r-deletion variant, and every r-deletion variant arises so *)
Lemma del_at_combinations s r c :
  (exists idx, In idx (combinations (py_range 0 (length s)) r) /\ c = del_at s idx) <-> del r s c.
Proof.
  rewrite py_range_0. split.
  - intros (idx & Hi & ->). apply combinations_spec in Hi as [S L].
    destruct (sublist_delpos _ _ _ S) as (c & Hc). rewrite (delpos_del_at _ _ _ Hc).
    rewrite <- L. eapply delpos_del; eauto.
  - intros H. destruct (del_delpos _ _ _ H 0) as (idx & Hd & L). exists idx. split.
    + apply combinations_spec. split; [eapply delpos_sublist; eauto|assumption].
    + symmetry. now apply delpos_del_at.
Qed.

(* the body of the loop over the position tuples: what it adds to the set *)
Definition del_at_add (s : list A) (idx : list nat) : list (list A) :=
  let '(p, o) := fold_left (slice_step s) idx ([], 0) in [concat (p ++ [slice s o (length s)])].
Lemma del_at_add_eq s idx : del_at_add s idx = [del_at s idx].
Proof. unfold del_at_add, del_at. now destruct (fold_left (slice_step s) idx ([], 0)). Qed.

(* what today's _comb_gen is expected to be, up to conversion *)
Definition comb_gen_loops (s : list A) (k : nat) : list (list A) :=
  [s] ++ flat_map (fun e => flat_map (del_at_add s) (combinations (py_range 0 (length s)) e))
                  (py_range 1 (k + 1)).

Lemma comb_gen_loops_spec s k c : In c (comb_gen_loops s k) <-> exists n, n <= k /\ del n s c.
Proof.
  unfold comb_gen_loops. rewrite in_app_iff, in_flat_map. split.
  - intros [[<-|[]]|(e & He & Hc)].
    + exists 0. split; [lia|apply del_refl].
    + apply in_py_range in He. apply in_flat_map in Hc as (idx & Hi & Hc).
      rewrite del_at_add_eq in Hc. destruct Hc as [<-|[]].
      exists e. split; [lia|]. apply del_at_combinations. eauto.
  - intros (n & Hn & H). destruct n as [|n].
    + left. left. symmetry. now apply del_zero.
    + right. exists (S n). split; [apply in_py_range; lia|].
      apply del_at_combinations in H as (idx & Hi & ->). apply in_flat_map. exists idx. split; [assumption|rewrite del_at_add_eq; now left].
Qed.

Lemma fold_left_pointwise {X Y : Type} (f g : X -> Y -> X) (l : list Y) : forall a,
  (forall a y, f a y = g a y) -> fold_left f l a = fold_left g l a.
Proof. induction l as [|y l IH]; intros a H; simpl; [reflexivity|]. rewrite H. now apply IH. Qed.

(* the same statement for any text that differs from the two loops only by provably equal pieces
   (e.g. `1 + index` for `index + 1`): used when today's text is not convertible with comb_gen_loops *)
Lemma comb_gen_loops_ext (s : list A) k (init : list (list A)) (rng pos : list nat)
      (body : nat -> list nat -> list (list A)) :
  init = [s] -> rng = py_range 1 (k + 1) -> pos = py_range 0 (length s) ->
  (forall e idx, body e idx = del_at_add s idx) ->
  forall c, In c (init ++ flat_map (fun e => flat_map (body e) (combinations pos e)) rng)
            <-> exists n, n <= k /\ del n s c.
Proof.
  intros -> -> -> Hb c. rewrite <- comb_gen_loops_spec. unfold comb_gen_loops.
  rewrite !in_app_iff, !in_flat_map.
  assert (E : forall e, flat_map (body e) (combinations (py_range 0 (length s)) e)
                        = flat_map (del_at_add s) (combinations (py_range 0 (length s)) e)).
  { intros e. apply flat_map_ext. intros idx. apply Hb. }
  split; (intros [H|(e & He & H)]; [now left|right; exists e; split; [assumption|]]).
  - now rewrite <- E.
  - now rewrite E.
Qed.
End DelPos.

(* ---- the tie: today's generated text is (convertible with) the two loops above ---- *)
Theorem gen_comb_gen_model : forall k s c, In c (gen_comb_gen s k) <-> In c (comb_gen k s).
Proof.
  intros k s c. rewrite in_comb_gen.
  first
    [ (* today's text is the two loops, up to conversion *)
      change (gen_comb_gen s k) with (comb_gen_loops s k); apply comb_gen_loops_spec
    | (* or it differs from them by pieces that are equal by linear arithmetic *)
      unfold gen_comb_gen; cbv zeta;
      match goal with
      | |- In _ (?init ++ flat_map (fun e => flat_map (fun idx => @?body e idx) (combinations ?pos e)) ?rng) <-> _ =>
        apply (comb_gen_loops_ext s k init rng pos body)
      end;
      [ reflexivity
      | first [ reflexivity | unfold py_range; f_equal; lia ]
      | first [ reflexivity | unfold py_range; f_equal; lia ]
      | intros e idx; unfold del_at_add;
        rewrite (fold_left_pointwise _ (slice_step s))
          by (intros [p o] i; unfold slice_step; repeat (f_equal; try lia));
        first [ reflexivity
              | unfold str in *; destruct (fold_left (slice_step s) idx ([], 0)) as [p o]; repeat (f_equal; try lia) ] ] ].
Qed.

Theorem gen_comb_gen_variants : forall k s c, In c (gen_comb_gen s k) <-> exists n, n <= k /\ del n s c.
Proof.
  intros k s c. rewrite gen_comb_gen_model. apply in_comb_gen.
Qed.
