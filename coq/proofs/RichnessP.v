From Coq Require Import List QArith NArith ZArith Bool Arith Lia Permutation Qfield Lqa.
From PV Require Import lib.Val lib.Str gen.Gen_stats model.Richness.
Import ListNotations.
Open Scope Q_scope.

Lemma Qeq_bool_false_neq x y : Qeq_bool x y = false -> ~ x == y.
Proof. intros H E. apply Qeq_bool_iff in E. congruence. Qed.

Ltac qeqb x y := let E := fresh "E" in destruct (Qeq_bool x y) eqn:E;
  [apply Qeq_bool_iff in E | apply Qeq_bool_false_neq in E].

Lemma chao1_ok f : (1 <= length f)%nat -> veq (gen_chao1 f) (V (spec_chao1 f)).
Proof.
  destruct f as [|f1 [|f2 r]]; intros L; simpl in L; try lia.
  - unfold gen_chao1, spec_chao1, nthQ. cbn. field.
  - unfold gen_chao1, spec_chao1, nthQ. cbn -[Qeq_bool].
    change (0 # 1) with 0. qeqb f2 0.
    + cbn. field.
    + cbn -[Qeq_bool]. assert (~ (2 # 1) * f2 == 0) as NZ.
      { intro H. apply E. lra. }
      destruct (Qeq_bool ((2 # 1) * f2) 0) eqn:E2; [apply Qeq_bool_iff in E2; contradiction|].
      cbn. field. intro; apply E; lra.
Qed.

Lemma chao2_ok f m : (1 <= length f)%nat -> veq (gen_chao2 f m) (ov (spec_chao2 f)).
Proof.
  destruct f as [|f1 [|f2 r]]; intros L; simpl in L; try lia.
  - unfold gen_chao2, spec_chao2, nthQ. cbn. exact I.
  - unfold gen_chao2, spec_chao2, nthQ. cbn -[Qeq_bool].
    change (0 # 1) with 0. qeqb f2 0.
    + cbn. exact I.
    + cbn -[Qeq_bool]. assert (~ (2 # 1) * f2 == 0) as NZ.
      { intro H. apply E. lra. }
      destruct (Qeq_bool ((2 # 1) * f2) 0) eqn:E2; [apply Qeq_bool_iff in E2; contradiction|].
      cbn. field. intro; apply E; lra.
Qed.

Lemma var_chao1_ok f : (1 <= length f)%nat -> veq (gen_var_chao1 f) (ov (spec_var_chao f)).
Proof.
  destruct f as [|f1 [|f2 r]]; intros L; simpl in L; try lia.
  - unfold gen_var_chao1, spec_var_chao, nthQ. cbn. exact I.
  - unfold gen_var_chao1, spec_var_chao, nthQ. cbn -[Qeq_bool Qdiv Qpower].
    change (0 # 1) with 0. qeqb f2 0.
    + cbn. exact I.
    + cbn -[Qeq_bool Qdiv Qpower].
      repeat match goal with |- context [Qeq_bool ?a 0] =>
        let E' := fresh "E" in destruct (Qeq_bool a 0) eqn:E';
        [apply Qeq_bool_iff in E'; try (exfalso; lra) | clear E'] end;
      cbn -[Qdiv Qpower]; try (field; auto).
Qed.

Lemma var_chao2_ok f m : (1 <= length f)%nat -> veq (gen_var_chao2 f m) (ov (spec_var_chao f)).
Proof.
  destruct f as [|f1 [|f2 r]]; intros L; simpl in L; try lia.
  - unfold gen_var_chao2, spec_var_chao, nthQ. cbn. exact I.
  - unfold gen_var_chao2, spec_var_chao, nthQ. cbn -[Qeq_bool Qdiv Qpower].
    change (0 # 1) with 0. qeqb f2 0.
    + cbn. exact I.
    + cbn -[Qeq_bool Qdiv Qpower].
      repeat match goal with |- context [Qeq_bool ?a 0] =>
        let E' := fresh "E" in destruct (Qeq_bool a 0) eqn:E';
        [apply Qeq_bool_iff in E'; try (exfalso; lra) | clear E'] end;
      cbn -[Qdiv Qpower]; try (field; auto).
Qed.

(* a defined estimate is never below the observed richness (integer, non-negative counts) *)
Lemma sq_nonneg_Z (z : Z) : (0 <= z * (z - 1))%Z.
Proof. nia. Qed.

Lemma chao1_ge (fz : list Z) : (1 <= length fz)%nat -> Forall (fun z => (0 <= z)%Z) fz ->
  sumQ (map inject_Z fz) <= spec_chao1 (map inject_Z fz).
Proof.
  intros L F. unfold spec_chao1, nthQ.
  destruct fz as [|z1 [|z2 r]]; simpl in L; try lia.
  - cbn. pose proof (sq_nonneg_Z z1) as H.
    assert (0 <= inject_Z z1 * (inject_Z z1 - 1)) as H1.
    { unfold Qle, Qmult, Qminus, Qplus, Qopp, inject_Z; simpl. nia. }
    assert (0 <= inject_Z z1 * (inject_Z z1 - 1) / 2).
    { apply Qle_shift_div_l; lra. }
    lra.
  - cbn -[Qeq_bool Qdiv Qpower sumQ]. inversion F as [|? ? P1 F2]; subst. inversion F2 as [|? ? P2 _]; subst.
    qeqb (inject_Z z2) 0.
    + pose proof (sq_nonneg_Z z1) as H.
      assert (0 <= inject_Z z1 * (inject_Z z1 - 1)) as H1.
      { unfold Qle, Qmult, Qminus, Qplus, Qopp, inject_Z; simpl. nia. }
      assert (0 <= inject_Z z1 * (inject_Z z1 - 1) / 2).
      { apply Qle_shift_div_l; lra. }
      lra.
    + assert (0 < inject_Z z2) as Hp.
      { assert (0 <= inject_Z z2) by (unfold Qle, inject_Z; simpl; lia).
        destruct (Qlt_le_dec 0 (inject_Z z2)); auto. exfalso. apply E. lra. }
      assert (0 <= inject_Z z1 ^ 2 / (2 * inject_Z z2)).
      { apply Qle_shift_div_l; [lra|]. simpl. nra. }
      lra.
Qed.

Lemma chao2_ge (fz : list Z) q : (1 <= length fz)%nat -> Forall (fun z => (0 <= z)%Z) fz ->
  spec_chao2 (map inject_Z fz) = Some q -> sumQ (map inject_Z fz) <= q.
Proof.
  intros L F. unfold spec_chao2, nthQ.
  destruct fz as [|z1 [|z2 r]]; simpl in L; try lia.
  - cbn. discriminate.
  - cbn -[Qeq_bool Qdiv Qpower sumQ]. inversion F as [|? ? P1 F2]; subst. inversion F2 as [|? ? P2 _]; subst.
    qeqb (inject_Z z2) 0; [discriminate|]. intros [= <-].
    assert (0 < inject_Z z2) as Hp.
    { assert (0 <= inject_Z z2) by (unfold Qle, inject_Z; simpl; lia).
      destruct (Qlt_le_dec 0 (inject_Z z2)); auto. exfalso. apply E. lra. }
    assert (0 <= inject_Z z1 ^ 2 / (2 * inject_Z z2)).
    { apply Qle_shift_div_l; [lra|]. simpl. nra. }
    cbn [sumQ Qpower Qpower_positive Pos.iter_op Pos.iter] in *. simpl in H. lra.
Qed.

(* ---- set algebra ---- *)
Lemma nodup_length_ext (l l' : list N) : (forall x, In x l <-> In x l') ->
  length (nodup N.eq_dec l) = length (nodup N.eq_dec l').
Proof.
  intros H. apply Nat.le_antisymm; apply NoDup_incl_length; try apply NoDup_nodup;
    intros x Hx; apply nodup_In; apply nodup_In in Hx; apply H; auto.
Qed.

Lemma NoDup_length_ext (l l' : list N) : NoDup l -> NoDup l' -> (forall x, In x l <-> In x l') ->
  length l = length l'.
Proof. intros N1 N2 H. apply Nat.le_antisymm; apply NoDup_incl_length; auto; intros x Hx; apply H; auto. Qed.

Lemma in_setof A x : In x (setof A) <-> In (Some x) A.
Proof.
  unfold setof, dropna. rewrite nodup_In, in_flat_map. split.
  - intros ([y|] & Hy & Hin); simpl in Hin; [destruct Hin as [->|[]]; auto|contradiction].
  - intros H. exists (Some x). split; simpl; auto.
Qed.

Lemma NoDup_filter {X} (f : X -> bool) l : NoDup l -> NoDup (filter f l).
Proof. induction 1; simpl; [constructor|]. destruct (f x); auto. constructor; auto.
  rewrite filter_In. tauto. Qed.

Lemma in_inter A B x : In x (filter (fun x => memb N.eq_dec x (setof B)) (setof A)) <-> In (Some x) A /\ In (Some x) B.
Proof. rewrite filter_In, memb_In, !in_setof. tauto. Qed.

(* the three measures depend only on which non-missing values occur: order and duplicates are irrelevant *)
Definition same_set (A A' : list (option N)) := forall x, In (Some x) A <-> In (Some x) A'.

Lemma inter_size_ext A A' B B' : same_set A A' -> same_set B B' -> inter_size A B = inter_size A' B'.
Proof.
  intros HA HB. unfold inter_size. apply NoDup_length_ext.
  - apply NoDup_filter, NoDup_nodup.
  - apply NoDup_filter, NoDup_nodup.
  - intros x. rewrite !in_inter. rewrite (HA x), (HB x). tauto.
Qed.

Lemma inter_size_sym A B : inter_size A B = inter_size B A.
Proof.
  unfold inter_size. apply NoDup_length_ext; try (apply NoDup_filter, NoDup_nodup).
  intros x. rewrite !in_inter. tauto.
Qed.

Lemma union_size_ext A A' B B' : same_set A A' -> same_set B B' -> union_size A B = union_size A' B'.
Proof.
  intros HA HB. unfold union_size. apply nodup_length_ext.
  intros x. rewrite !in_app_iff, !in_setof. rewrite (HA x), (HB x). tauto.
Qed.

Lemma union_size_sym A B : union_size A B = union_size B A.
Proof. unfold union_size. apply nodup_length_ext. intros x. rewrite !in_app_iff. tauto. Qed.

Lemma setof_size_ext A A' : same_set A A' -> length (setof A) = length (setof A').
Proof. intros H. apply NoDup_length_ext; try apply NoDup_nodup. intros x. rewrite !in_setof. apply H. Qed.

Lemma jaccard_sym A B : jaccard A B = jaccard B A.
Proof. unfold jaccard. now rewrite union_size_sym, inter_size_sym. Qed.
Lemma jaccard_ext A A' B B' : same_set A A' -> same_set B B' -> jaccard A B = jaccard A' B'.
Proof. intros HA HB. unfold jaccard. now rewrite (union_size_ext _ _ _ _ HA HB), (inter_size_ext _ _ _ _ HA HB). Qed.
Lemma overlap_sym A B : overlap A B = overlap B A.
Proof. apply inter_size_sym. Qed.
Lemma overlap_ext A A' B B' : same_set A A' -> same_set B B' -> overlap A B = overlap A' B'.
Proof. apply inter_size_ext. Qed.
Lemma overlap_coefficient_sym A B : overlap_coefficient A B = overlap_coefficient B A.
Proof. unfold overlap_coefficient. rewrite inter_size_sym, Nat.min_comm, orb_comm. reflexivity. Qed.
Lemma overlap_coefficient_ext A A' B B' : same_set A A' -> same_set B B' ->
  overlap_coefficient A B = overlap_coefficient A' B'.
Proof. intros HA HB. unfold overlap_coefficient.
  now rewrite (inter_size_ext _ _ _ _ HA HB), (setof_size_ext _ _ HA), (setof_size_ext _ _ HB). Qed.

Lemma same_set_perm A A' : Permutation A A' -> same_set A A'.
Proof. intros P x. split; apply Permutation_in; auto. now apply Permutation_sym. Qed.
Lemma same_set_dup A : same_set (A ++ A) A.
Proof. intros x. rewrite in_app_iff. tauto. Qed.

(* the sizes are what the statement says: |A n B|, |A u B| over the non-missing element sets *)
Lemma inter_size_spec A B l : NoDup l -> (forall x, In x l <-> In (Some x) A /\ In (Some x) B) ->
  inter_size A B = length l.
Proof. intros ND H. unfold inter_size. apply NoDup_length_ext; auto.
  apply NoDup_filter, NoDup_nodup. intros x. rewrite in_inter. symmetry. apply H. Qed.
Lemma union_size_spec A B l : NoDup l -> (forall x, In x l <-> In (Some x) A \/ In (Some x) B) ->
  union_size A B = length l.
Proof. intros ND H. unfold union_size. apply NoDup_length_ext; auto. apply NoDup_nodup.
  intros x. rewrite nodup_In, in_app_iff, !in_setof. symmetry. apply H. Qed.
