(* C15: the executable component labelling computes exactly path connectivity. *)
From Coq Require Import List Arith Bool Lia.
From PV Require Import model.Cluster.
Import ListNotations.

(* ---------- a. connectivity is an equivalence, monotone in the edge list ---------- *)
Lemma connected_trans E u v w : connected E u v -> connected E v w -> connected E u w.
Proof.
  intros Huv Hvw. induction Hvw as [v|v w z Hvw IH Hedge].
  - exact Huv.
  - eapply conn_step; [apply IH; exact Huv|exact Hedge].
Qed.

Lemma connected_edge E u v : In (u, v) E \/ In (v, u) E -> connected E u v.
Proof. intros H. eapply conn_step; [apply conn_refl|exact H]. Qed.

Lemma connected_sym E u v : connected E u v -> connected E v u.
Proof.
  induction 1 as [u|u v w Huv IH Hedge].
  - apply conn_refl.
  - eapply connected_trans; [|exact IH]. apply connected_edge. tauto.
Qed.

Lemma connected_incl E E' u v : incl E E' -> connected E u v -> connected E' u v.
Proof.
  intros Hincl. induction 1 as [u|u v w Huv IH Hedge].
  - apply conn_refl.
  - eapply conn_step; [exact IH|]. destruct Hedge as [Hin|Hin]; [left|right]; apply Hincl; exact Hin.
Qed.

Lemma connected_nil u v : connected [] u v <-> u = v.
Proof.
  split.
  - induction 1 as [u|u v w Huv IH Hedge]; [reflexivity|]. destruct Hedge as [[]|[]].
  - intros ->. apply conn_refl.
Qed.

(* ---------- b. adding one edge ---------- *)
Lemma connected_snoc E x y u v :
  connected (E ++ [(x, y)]) u v <->
  connected E u v \/ (connected E u x /\ connected E y v) \/ (connected E u y /\ connected E x v).
Proof.
  split.
  - induction 1 as [u|u v w Huv IH Hedge].
    + left. apply conn_refl.
    + assert (Hcases : (In (v, w) E \/ In (w, v) E) \/ (v = x /\ w = y) \/ (v = y /\ w = x)).
      { destruct Hedge as [Hin|Hin]; apply in_app_or in Hin; destruct Hin as [Hin|Hin].
        - left; left; exact Hin.
        - destruct Hin as [Heq|[]]. injection Heq as Hx Hy. right; left; split; congruence.
        - left; right; exact Hin.
        - destruct Hin as [Heq|[]]. injection Heq as Hx Hy. right; right; split; congruence. }
      destruct Hcases as [HinE|[[-> ->]|[-> ->]]].
      * destruct IH as [H1|[[H1 H2]|[H1 H2]]].
        -- left. eapply conn_step; eauto.
        -- right; left. split; [exact H1|]. eapply conn_step; eauto.
        -- right; right. split; [exact H1|]. eapply conn_step; eauto.
      * destruct IH as [H1|[[H1 H2]|[H1 H2]]].
        -- right; left. split; [exact H1|apply conn_refl].
        -- right; left. split; [exact H1|apply conn_refl].
        -- left. exact H1.
      * destruct IH as [H1|[[H1 H2]|[H1 H2]]].
        -- right; right. split; [exact H1|apply conn_refl].
        -- left. exact H1.
        -- right; right. split; [exact H1|apply conn_refl].
  - assert (Hincl : incl E (E ++ [(x, y)])) by (apply incl_appl, incl_refl).
    assert (Hxy : connected (E ++ [(x, y)]) x y).
    { apply connected_edge. left. apply in_or_app. right. now left. }
    intros [H1|[[H1 H2]|[H1 H2]]].
    + eapply connected_incl; eauto.
    + eapply connected_trans; [eapply connected_incl; eauto|].
      eapply connected_trans; [exact Hxy|]. eapply connected_incl; eauto.
    + eapply connected_trans; [eapply connected_incl; eauto|].
      eapply connected_trans; [apply connected_sym; exact Hxy|]. eapply connected_incl; eauto.
Qed.

(* ---------- c. the labelling invariant ---------- *)
(* lab is a valid labelling of the graph (n, E0) *)
Definition valid (n : nat) (E0 : list edge) (lab : list nat) : Prop :=
  length lab = n /\
  forall u v, u < n -> v < n -> (nth u lab 0 = nth v lab 0 <-> connected E0 u v).

(* every label is a node id that labels itself (a class representative) *)
Definition reps (n : nat) (lab : list nat) : Prop :=
  forall u, u < n -> nth u lab 0 < n /\ nth (nth u lab 0) lab 0 = nth u lab 0.

Lemma merge_length lab e : length (merge lab e) = length lab.
Proof. unfold merge. apply map_length. Qed.

Lemma merge_nth lab x y u :
  u < length lab ->
  nth u (merge lab (x, y)) 0 =
  if Nat.eqb (nth u lab 0) (nth y lab 0) then nth x lab 0 else nth u lab 0.
Proof.
  intros Hu. unfold merge. simpl fst; simpl snd.
  set (f := fun l => if Nat.eqb l (nth y lab 0) then nth x lab 0 else l).
  rewrite (nth_indep (map f lab) 0 (f 0)) by (rewrite map_length; exact Hu).
  rewrite map_nth. reflexivity.
Qed.

Lemma valid_init n : valid n [] (seq 0 n).
Proof.
  split; [apply seq_length|]. intros u v Hu Hv.
  rewrite !seq_nth by assumption. simpl. symmetry. apply connected_nil.
Qed.

Lemma reps_init n : reps n (seq 0 n).
Proof.
  intros u Hu. rewrite !seq_nth by (simpl; assumption). simpl. lia.
Qed.

Lemma valid_merge n E0 lab x y :
  x < n -> y < n -> valid n E0 lab -> valid n (E0 ++ [(x, y)]) (merge lab (x, y)).
Proof.
  intros Hx Hy [Hlen Hval]. split; [rewrite merge_length; exact Hlen|].
  intros u v Hu Hv.
  rewrite !merge_nth by lia.
  rewrite connected_snoc.
  rewrite <- (Hval u v Hu Hv), <- (Hval u x Hu Hx), <- (Hval y v Hy Hv),
          <- (Hval u y Hu Hy), <- (Hval x v Hx Hv).
  destruct (Nat.eqb_spec (nth u lab 0) (nth y lab 0)) as [Euy|Euy];
  destruct (Nat.eqb_spec (nth v lab 0) (nth y lab 0)) as [Evy|Evy]; lia.
Qed.

Lemma reps_merge n lab x y :
  length lab = n -> x < n -> y < n -> reps n lab -> reps n (merge lab (x, y)).
Proof.
  intros Hlen Hx Hy Hrep u Hu.
  destruct (Hrep u Hu) as [Hul Huf]. destruct (Hrep x Hx) as [Hxl Hxf].
  rewrite (merge_nth lab x y u) by lia.
  destruct (Nat.eqb_spec (nth u lab 0) (nth y lab 0)) as [Euy|Euy].
  - split; [exact Hxl|]. rewrite merge_nth by lia. rewrite Hxf.
    destruct (Nat.eqb (nth x lab 0) (nth y lab 0)); reflexivity.
  - split; [exact Hul|]. rewrite merge_nth by lia. rewrite Huf.
    destruct (Nat.eqb_spec (nth u lab 0) (nth y lab 0)) as [E'|E']; [contradiction|reflexivity].
Qed.

Lemma fold_valid n E : forall E0 lab,
  edges_ok n E -> valid n E0 lab -> valid n (E0 ++ E) (fold_left merge E lab).
Proof.
  induction E as [|[x y] E IH]; intros E0 lab Hok Hval; simpl.
  - rewrite app_nil_r. exact Hval.
  - inversion Hok as [|e E' [Hx Hy] Hok']; subst. simpl in Hx, Hy.
    pose proof (IH (E0 ++ [(x, y)]) (merge lab (x, y)) Hok' (valid_merge n E0 lab x y Hx Hy Hval)) as Hnew.
    rewrite <- app_assoc in Hnew. simpl in Hnew. exact Hnew.
Qed.

Lemma fold_reps n E : forall lab,
  edges_ok n E -> length lab = n -> reps n lab ->
  length (fold_left merge E lab) = n /\ reps n (fold_left merge E lab).
Proof.
  induction E as [|[x y] E IH]; intros lab Hok Hlen Hrep; simpl.
  - split; assumption.
  - inversion Hok as [|e E' [Hx Hy] Hok']; subst. simpl in Hx, Hy.
    apply IH; [exact Hok'|rewrite merge_length; reflexivity|].
    apply reps_merge; auto.
Qed.

Lemma components_valid n E : edges_ok n E -> valid n E (components n E).
Proof.
  intros Hok. unfold components.
  change E with ([] ++ E) at 1. apply fold_valid; [exact Hok|apply valid_init].
Qed.

(* MAIN *)
Theorem components_spec n E u v :
  edges_ok n E -> u < n -> v < n ->
  (nth u (components n E) 0 = nth v (components n E) 0 <-> connected E u v).
Proof.
  intros Hok Hu Hv. destruct (components_valid n E Hok) as [_ Hval]. apply Hval; assumption.
Qed.

(* ---------- d. shape of the labelling ---------- *)
(* no edges_ok needed: merge preserves the length whatever the edge *)
Theorem components_length n E : length (components n E) = n.
Proof.
  unfold components.
  assert (H : forall lab, length (fold_left merge E lab) = length lab).
  { induction E as [|e E IH]; intros lab; simpl; [reflexivity|]. rewrite IH. apply merge_length. }
  rewrite H. apply seq_length.
Qed.

(* the label of u is the id of a node of u's class, and that node labels itself *)
Theorem components_label n E u :
  edges_ok n E -> u < n ->
  nth u (components n E) 0 < n /\
  nth (nth u (components n E) 0) (components n E) 0 = nth u (components n E) 0 /\
  connected E u (nth u (components n E) 0).
Proof.
  intros Hok Hu.
  destruct (fold_reps n E (seq 0 n) Hok (seq_length n 0) (reps_init n)) as [_ Hrep].
  fold (components n E) in Hrep. destruct (Hrep u Hu) as [Hlt Hfix].
  split; [exact Hlt|]. split; [exact Hfix|].
  apply (components_spec n E u (nth u (components n E) 0) Hok Hu Hlt). symmetry. exact Hfix.
Qed.

(* ---------- e. graph_cc ---------- *)
Lemma count_occ_two (l : list nat) : forall u, u < length l ->
  (1 < count_occ Nat.eq_dec l (nth u l 0) <->
   exists v, v < length l /\ v <> u /\ nth v l 0 = nth u l 0).
Proof.
  induction l as [|a l IH]; intros u Hu; simpl in Hu; [lia|].
  destruct u as [|u].
  - simpl nth at 1. simpl count_occ. destruct (Nat.eq_dec a a) as [_|Hne]; [|contradiction].
    split.
    + intros Hc. assert (Hin : In a l) by (apply (count_occ_In Nat.eq_dec); lia).
      destruct (In_nth l a 0 Hin) as (k & Hk & Hnth).
      exists (S k). simpl. split; [lia|]. split; [lia|exact Hnth].
    + intros (v & Hv & Hvu & Hnth). destruct v as [|v]; [contradiction|].
      simpl in Hv, Hnth.
      assert (Hin : In a l) by (rewrite <- Hnth; apply nth_In; lia).
      apply (count_occ_In Nat.eq_dec) in Hin. lia.
  - assert (Hu' : u < length l) by lia.
    simpl nth at 1. simpl count_occ.
    destruct (Nat.eq_dec a (nth u l 0)) as [Ha|Ha].
    + split.
      * intros _. exists 0. simpl. split; [lia|]. split; [lia|exact Ha].
      * intros _. assert (Hin : In (nth u l 0) l) by (apply nth_In; exact Hu').
        apply (count_occ_In Nat.eq_dec) in Hin. lia.
    + rewrite (IH u Hu'). split.
      * intros (v & Hv & Hvu & Hnth). exists (S v). simpl. split; [lia|]. split; [lia|exact Hnth].
      * intros (v & Hv & Hvu & Hnth). destruct v as [|v]; simpl in Hv, Hnth; [contradiction|].
        exists v. split; [lia|]. split; [lia|exact Hnth].
Qed.

Lemma in_combine_seq (lab : list nat) n u c :
  length lab = n ->
  (In (u, c) (combine (seq 0 n) lab) <-> u < n /\ c = nth u lab 0).
Proof.
  intros Hlen. split.
  - intros Hin. destruct (In_nth _ _ (0, 0) Hin) as (k & Hk & Hnth).
    rewrite combine_length, seq_length, Hlen, Nat.min_id in Hk.
    rewrite combine_nth in Hnth by (rewrite seq_length; lia).
    rewrite seq_nth in Hnth by exact Hk. simpl in Hnth. injection Hnth as Hu Hc. subst u.
    split; [exact Hk|]. symmetry; exact Hc.
  - intros [Hu ->].
    assert (Heq : (u, nth u lab 0) = nth u (combine (seq 0 n) lab) (0, 0)).
    { rewrite combine_nth by (rewrite seq_length; lia). rewrite seq_nth by exact Hu. reflexivity. }
    rewrite Heq. apply nth_In. rewrite combine_length, seq_length, Hlen, Nat.min_id. exact Hu.
Qed.

Theorem graph_cc_spec n E u c :
  edges_ok n E ->
  (In (u, c) (graph_cc n E) <->
   u < n /\ c = nth u (components n E) 0 /\ exists v, v < n /\ v <> u /\ connected E u v).
Proof.
  intros Hok. unfold graph_cc. rewrite filter_In.
  rewrite (in_combine_seq _ n u c (components_length n E)). simpl snd. unfold cluster_size.
  rewrite Nat.ltb_lt.
  split.
  - intros [[Hu Hc] Hcnt]. split; [exact Hu|]. split; [exact Hc|]. subst c.
    apply count_occ_two in Hcnt; [|rewrite components_length; exact Hu].
    destruct Hcnt as (v & Hv & Hvu & Hnth). rewrite components_length in Hv.
    exists v. split; [exact Hv|]. split; [exact Hvu|].
    apply (components_spec n E u v Hok Hu Hv). symmetry. exact Hnth.
  - intros (Hu & Hc & v & Hv & Hvu & Hconn). split; [split; assumption|]. subst c.
    apply count_occ_two; [rewrite components_length; exact Hu|].
    exists v. rewrite components_length. split; [exact Hv|]. split; [exact Hvu|].
    symmetry. apply (components_spec n E u v Hok Hu Hv). exact Hconn.
Qed.

(* a node connected to no other node never appears *)
Corollary graph_cc_isolated n E u c :
  edges_ok n E -> (forall v, v < n -> connected E u v -> v = u) -> ~ In (u, c) (graph_cc n E).
Proof.
  intros Hok Hiso Hin. apply graph_cc_spec in Hin; [|exact Hok].
  destruct Hin as (_ & _ & v & Hv & Hvu & Hconn). apply Hvu. apply Hiso; assumption.
Qed.

(* no edges: no cluster of size > 1, so nothing is reported *)
Corollary graph_cc_nil n : graph_cc n [] = [].
Proof.
  destruct (graph_cc n []) as [|[u c] l] eqn:Heq; [reflexivity|exfalso].
  assert (Hin : In (u, c) (graph_cc n [])) by (rewrite Heq; now left).
  apply graph_cc_spec in Hin; [|constructor].
  destruct Hin as (_ & _ & v & Hv & Hvu & Hconn). apply connected_nil in Hconn. congruence.
Qed.

(* ---------- f. refinement check ---------- *)
Lemma refines_spec0 P Q :
  refines P Q = true <->
  forall i j, i < length P -> j < length P -> nth i P 0 = nth j P 0 -> nth i Q 0 = nth j Q 0.
Proof.
  unfold refines. rewrite forallb_forall. split.
  - intros H i j Hi Hj Heq.
    assert (Hi' : In i (seq 0 (length P))) by (apply in_seq; lia).
    assert (Hj' : In j (seq 0 (length P))) by (apply in_seq; lia).
    specialize (H i Hi'). rewrite forallb_forall in H. specialize (H j Hj').
    apply Nat.eqb_eq in Heq. rewrite Heq in H. simpl in H. apply Nat.eqb_eq. exact H.
  - intros H i Hi. apply forallb_forall. intros j Hj.
    apply in_seq in Hi. apply in_seq in Hj.
    destruct (Nat.eqb_spec (nth i P 0) (nth j P 0)) as [Heq|Hne]; simpl; [|reflexivity].
    apply Nat.eqb_eq. apply H; [lia|lia|exact Heq].
Qed.

(* as requested (the length hypothesis is not actually needed, see refines_spec0) *)
Theorem refines_spec P Q :
  length P = length Q ->
  (refines P Q = true <->
   forall i j, i < length P -> j < length P -> nth i P 0 = nth j P 0 -> nth i Q 0 = nth j Q 0).
Proof. intros _. apply refines_spec0. Qed.

Corollary refines_components n E P :
  edges_ok n E -> length P = n ->
  (refines P (components n E) = true <->
   forall i j, i < n -> j < n -> nth i P 0 = nth j P 0 -> connected E i j).
Proof.
  intros Hok Hlen. rewrite refines_spec by (rewrite components_length; exact Hlen).
  rewrite Hlen. split.
  - intros H i j Hi Hj Heq. apply (components_spec n E i j Hok Hi Hj). apply H; assumption.
  - intros H i j Hi Hj Heq. apply (components_spec n E i j Hok Hi Hj). apply H; assumption.
Qed.

(* sanity: 0-1-2 chained, 3 isolated, 4-5 paired *)
Example components_ex :
  components 6 [(1, 2); (0, 1); (5, 4)] = [0; 0; 0; 3; 5; 5] /\
  graph_cc 6 [(1, 2); (0, 1); (5, 4)] = [(0, 0); (1, 0); (2, 0); (4, 5); (5, 5)] /\
  refines [7; 7; 8; 9; 4; 4] (components 6 [(1, 2); (0, 1); (5, 4)]) = true /\
  refines [7; 7; 7; 7; 4; 4] (components 6 [(1, 2); (0, 1); (5, 4)]) = false.
Proof. vm_compute. repeat split. Qed.

(* edges_ok is necessary: an out-of-range endpoint reads the default label 0 and
   wrongly merges node 1 into node 0's class although 0 and 1 are not connected *)
Example components_needs_edges_ok :
  components 2 [(5, 1)] = [0; 0] /\ ~ connected [(5, 1)] 0 1.
Proof.
  split; [reflexivity|]. intros H.
  assert (G : forall u v, connected [(5, 1)] u v -> u = 0 -> v = 0).
  { induction 1 as [u|u v w Huv IH Hedge]; intros Hu0; [exact Hu0|].
    specialize (IH Hu0). subst v.
    destruct Hedge as [[Heq|[]]|[Heq|[]]]; discriminate Heq. }
  specialize (G 0 1 H eq_refl). discriminate G.
Qed.

Print Assumptions connected_sym.
Print Assumptions connected_trans.
Print Assumptions connected_incl.
Print Assumptions connected_snoc.
Print Assumptions components_spec.
Print Assumptions components_length.
Print Assumptions components_label.
Print Assumptions graph_cc_spec.
Print Assumptions graph_cc_isolated.
Print Assumptions graph_cc_nil.
Print Assumptions refines_spec.
Print Assumptions refines_components.

(* ====================================================================== *)
(* ---------- g. single linkage: cutting at t = components of the threshold graph ---------- *)
From Coq Require Import Permutation Sorted.

Lemma argmin_none {X : Type} (f : X -> nat) l : argmin f l = None -> l = [].
Proof.
  destruct l as [|x l]; [reflexivity|]. simpl.
  destruct (argmin f l) as [y|]; [destruct (Nat.ltb (f y) (f x))|]; discriminate.
Qed.

Lemma argmin_spec {X : Type} (f : X -> nat) l x :
  argmin f l = Some x -> In x l /\ forall y, In y l -> f x <= f y.
Proof.
  revert x. induction l as [|a l IH]; intros x H; simpl in H; [discriminate|].
  destruct (argmin f l) as [y|] eqn:E.
  - destruct (IH y eq_refl) as [Hin Hmin].
    destruct (Nat.ltb_spec (f y) (f a)) as [Hlt|Hge]; injection H as <-.
    + split; [right; exact Hin|]. intros z [<-|Hz]; [lia|apply Hmin; exact Hz].
    + split; [left; reflexivity|]. intros z [<-|Hz]; [lia|]. specialize (Hmin z Hz). lia.
  - injection H as <-. apply argmin_none in E. subst l.
    split; [left; reflexivity|]. intros z [<-|[]]. lia.
Qed.

Lemma picks_perm {X : Type} (l : list X) x r : In (x, r) (picks l) -> Permutation l (x :: r).
Proof.
  revert x r. induction l as [|a l IH]; intros x r H; simpl in H; [contradiction|].
  destruct H as [H|H].
  - injection H as <- <-. apply Permutation_refl.
  - apply in_map_iff in H. destruct H as ([y r'] & Heq & Hin). simpl in Heq. injection Heq as <- <-.
    apply IH in Hin. eapply perm_trans; [apply perm_skip; exact Hin|apply perm_swap].
Qed.

Lemma picks_in {X : Type} (l : list X) x : In x l -> exists r, In (x, r) (picks l).
Proof.
  induction l as [|a l IH]; intros H; [contradiction|]. destruct H as [<-|H].
  - exists l. left. reflexivity.
  - destruct (IH H) as [r Hr]. exists (a :: r). right. apply in_map_iff.
    exists (x, r). split; [reflexivity|exact Hr].
Qed.

Lemma pairs2_perm {X : Type} (l : list X) a b r : In (a, b, r) (pairs2 l) -> Permutation l (a :: b :: r).
Proof.
  unfold pairs2. intros H. apply in_flat_map in H. destruct H as ([x rx] & Hx & H). simpl in H.
  apply in_map_iff in H. destruct H as ([y ry] & Heq & Hy). simpl in Heq. injection Heq as <- <- <-.
  apply picks_perm in Hx. apply picks_perm in Hy.
  eapply perm_trans; [exact Hx|]. apply perm_skip. exact Hy.
Qed.

Lemma pairs2_in {X : Type} (l : list X) a b :
  In a l -> In b l -> a <> b -> exists r, In (a, b, r) (pairs2 l).
Proof.
  intros Ha Hb Hab. destruct (picks_in l a Ha) as [ra Hra].
  assert (Hb' : In b ra).
  { pose proof (picks_perm _ _ _ Hra) as P. apply (Permutation_in b P) in Hb.
    destruct Hb as [Heq|Hb]; [congruence|exact Hb]. }
  destruct (picks_in ra b Hb') as [rb Hrb]. exists rb. unfold pairs2. apply in_flat_map.
  exists (a, ra). split; [exact Hra|]. simpl. apply in_map_iff.
  exists (b, rb). split; [reflexivity|exact Hrb].
Qed.

Lemma cdist_le D A B a b : In a A -> In b B -> cdist D A B <= D a b.
Proof.
  intros Ha Hb. unfold cdist.
  assert (Hab : In (a, b) (list_prod A B)) by (apply in_prod; assumption).
  destruct (argmin (fun p => D (fst p) (snd p)) (list_prod A B)) as [p|] eqn:E.
  - apply argmin_spec in E. destruct E as [_ Hmin]. apply (Hmin (a, b) Hab).
  - apply argmin_none in E. rewrite E in Hab. contradiction.
Qed.

Lemma cdist_witness D A B : A <> [] -> B <> [] -> exists a b, In a A /\ In b B /\ cdist D A B = D a b.
Proof.
  intros HA HB. unfold cdist.
  destruct (argmin (fun p => D (fst p) (snd p)) (list_prod A B)) as [[a b]|] eqn:E.
  - apply argmin_spec in E. destruct E as [Hin _]. apply in_prod_iff in Hin.
    exists a, b. simpl. tauto.
  - apply argmin_none in E. destruct A as [|a A]; [congruence|]. destruct B as [|b B]; [congruence|].
    assert (Hab : In (a, b) (list_prod (a :: A) (b :: B))) by (apply in_prod; left; reflexivity).
    rewrite E in Hab. contradiction.
Qed.

(* --- state invariant: the clusters are a partition of 0..n-1 into non-empty blocks --- *)
Definition in_cl (cl : list (list nat)) (a : nat) : Prop := exists C, In C cl /\ In a C.
Definition same_cl (cl : list (list nat)) (a b : nat) : Prop := exists C, In C cl /\ In a C /\ In b C.
Definition cl_inv (n : nat) (cl : list (list nat)) : Prop :=
  (forall C, In C cl -> C <> []) /\ (forall u, u < n -> in_cl cl u) /\
  (forall C u, In C cl -> In u C -> u < n) /\ NoDup (concat cl).
(* points of different clusters are at distance >= lo *)
Definition sep (D : nat -> nat -> nat) (cl : list (list nat)) (lo : nat) : Prop :=
  forall a b, in_cl cl a -> in_cl cl b -> ~ same_cl cl a b -> lo <= D a b.

Lemma perm_concat {X : Type} (l l' : list (list X)) : Permutation l l' -> Permutation (concat l) (concat l').
Proof.
  induction 1 as [|x l l' _ IH|x y l|l l' l'' _ IH1 _ IH2]; simpl.
  - constructor.
  - apply Permutation_app_head. exact IH.
  - rewrite !app_assoc. apply Permutation_app_tail. apply Permutation_app_comm.
  - eapply perm_trans; eassumption.
Qed.

Lemma NoDup_app_disj {X : Type} (l1 l2 : list X) x : NoDup (l1 ++ l2) -> In x l1 -> In x l2 -> False.
Proof.
  induction l1 as [|a l1 IH]; intros Hnd H1 H2; [contradiction|].
  simpl in Hnd. inversion Hnd as [|a' l' Hnot Hnd']; subst. destruct H1 as [->|H1].
  - apply Hnot. apply in_or_app. right. exact H2.
  - apply IH; assumption.
Qed.

Lemma singletons_concat l : concat (map (fun i : nat => [i]) l) = l.
Proof. induction l as [|a l IH]; simpl; [reflexivity|]. rewrite IH. reflexivity. Qed.

Lemma singletons_same n a b : same_cl (singletons n) a b -> a = b.
Proof.
  intros (C & HC & Ha & Hb). unfold singletons in HC. apply in_map_iff in HC.
  destruct HC as (i & <- & _). destruct Ha as [<-|[]]. destruct Hb as [<-|[]]. reflexivity.
Qed.

Lemma singletons_inv n : cl_inv n (singletons n).
Proof.
  unfold singletons. repeat split.
  - intros C HC. apply in_map_iff in HC. destruct HC as (i & <- & _). discriminate.
  - intros u Hu. exists [u]. split; [|left; reflexivity]. apply in_map_iff. exists u.
    split; [reflexivity|]. apply in_seq. lia.
  - intros C u HC Hu. apply in_map_iff in HC. destruct HC as (i & <- & Hi).
    destruct Hu as [<-|[]]. apply in_seq in Hi. lia.
  - rewrite singletons_concat. apply seq_NoDup.
Qed.

(* what one merge does to the invariant *)
Lemma cl_inv_merge n cl A B r :
  cl_inv n cl -> Permutation cl (A :: B :: r) -> cl_inv n ((A ++ B) :: r).
Proof.
  intros (Hne & Hcov & Hrng & Hnd) P.
  assert (Hin : forall C, In C cl <-> A = C \/ B = C \/ In C r).
  { intros C. split; intros H.
    - apply (Permutation_in C P) in H. simpl in H. exact H.
    - apply (Permutation_in C (Permutation_sym P)). simpl. exact H. }
  repeat split.
  - intros C [<-|HC].
    + intros Heq. apply app_eq_nil in Heq. destruct Heq as [HA _]. apply (Hne A); [apply Hin; tauto|exact HA].
    + apply Hne. apply Hin. tauto.
  - intros u Hu. destruct (Hcov u Hu) as (C & HC & HuC). apply Hin in HC.
    destruct HC as [<-|[<-|HC]].
    + exists (A ++ B). split; [left; reflexivity|apply in_or_app; left; exact HuC].
    + exists (A ++ B). split; [left; reflexivity|apply in_or_app; right; exact HuC].
    + exists C. split; [right; exact HC|exact HuC].
  - intros C u [<-|HC] HuC.
    + apply in_app_or in HuC. destruct HuC as [H|H]; [apply (Hrng A)|apply (Hrng B)]; auto; apply Hin; tauto.
    + apply (Hrng C); [apply Hin; tauto|exact HuC].
  - apply perm_concat in P. simpl in P. simpl. rewrite <- app_assoc.
    apply (Permutation_NoDup P). exact Hnd.
Qed.

Lemma same_cl_merge cl A B r a b :
  Permutation cl (A :: B :: r) -> same_cl cl a b -> same_cl ((A ++ B) :: r) a b.
Proof.
  intros P (C & HC & Ha & Hb). apply (Permutation_in C P) in HC. destruct HC as [<-|[<-|HC]].
  - exists (A ++ B). split; [left; reflexivity|]. split; apply in_or_app; left; assumption.
  - exists (A ++ B). split; [left; reflexivity|]. split; apply in_or_app; right; assumption.
  - exists C. split; [right; exact HC|]. split; assumption.
Qed.

Lemma in_cl_merge cl A B r a :
  Permutation cl (A :: B :: r) -> in_cl ((A ++ B) :: r) a -> in_cl cl a.
Proof.
  intros P (C & HC & Ha). pose proof (Permutation_sym P) as P'. destruct HC as [<-|HC].
  - apply in_app_or in Ha. destruct Ha as [Ha|Ha].
    + exists A. split; [apply (Permutation_in A P'); left; reflexivity|exact Ha].
    + exists B. split; [apply (Permutation_in B P'); right; left; reflexivity|exact Ha].
  - exists C. split; [apply (Permutation_in C P'); right; right; exact HC|exact Ha].
Qed.

(* members of the two merged clusters were in different clusters *)
Lemma merged_not_same n cl A B r a b :
  cl_inv n cl -> Permutation cl (A :: B :: r) -> In a A -> In b B -> ~ same_cl cl a b.
Proof.
  intros (_ & _ & _ & Hnd) P Ha Hb (C & HC & HaC & HbC).
  pose proof (Permutation_NoDup (perm_concat _ _ P) Hnd) as Hnd'. simpl in Hnd'.
  apply (Permutation_in C P) in HC. destruct HC as [<-|[<-|HC]].
  - apply (NoDup_app_disj A (B ++ concat r) b Hnd' HbC). apply in_or_app. left. exact Hb.
  - apply (NoDup_app_disj A (B ++ concat r) a Hnd' Ha). apply in_or_app. left. exact HaC.
  - apply (NoDup_app_disj A (B ++ concat r) a Hnd' Ha). apply in_or_app. right.
    apply in_concat. exists C. split; assumption.
Qed.

Lemma sl_step_some D cl mh cl' : sl_step D cl = Some (mh, cl') ->
  exists A B r, In (A, B, r) (pairs2 cl) /\ mh = (A ++ B, cdist D A B) /\ cl' = (A ++ B) :: r /\
    forall A' B' r', In (A', B', r') (pairs2 cl) -> cdist D A B <= cdist D A' B'.
Proof.
  unfold sl_step. destruct (argmin (sl_key D) (pairs2 cl)) as [[[A B] r]|] eqn:E; [|discriminate].
  simpl. intros H. injection H as <- <-. apply argmin_spec in E. destruct E as [Hin Hmin].
  exists A, B, r. repeat split; auto. intros A' B' r' H'. apply (Hmin (A', B', r') H').
Qed.

Lemma sl_step_none D cl : sl_step D cl = None -> pairs2 cl = [].
Proof.
  unfold sl_step. destruct (argmin (sl_key D) (pairs2 cl)) as [abr|] eqn:E; [discriminate|].
  intros _. apply argmin_none in E. exact E.
Qed.

(* the chosen height is a lower bound for every distance between points of different clusters *)
Lemma step_height_min D cl A B :
  (forall A' B' r', In (A', B', r') (pairs2 cl) -> cdist D A B <= cdist D A' B') ->
  forall a b, in_cl cl a -> in_cl cl b -> ~ same_cl cl a b -> cdist D A B <= D a b.
Proof.
  intros Hmin a b (C1 & HC1 & Ha) (C2 & HC2 & Hb) Hns.
  assert (Hne : C1 <> C2).
  { intros ->. apply Hns. exists C2. tauto. }
  destruct (pairs2_in cl C1 C2 HC1 HC2 Hne) as [r' Hr'].
  specialize (Hmin _ _ _ Hr'). pose proof (cdist_le D C1 C2 a b Ha Hb). lia.
Qed.

(* heights never decrease: after a merge at height h every remaining inter-cluster distance is >= h *)
Lemma sep_step n D cl lo A B r :
  cl_inv n cl -> sep D cl lo -> In (A, B, r) (pairs2 cl) ->
  (forall A' B' r', In (A', B', r') (pairs2 cl) -> cdist D A B <= cdist D A' B') ->
  lo <= cdist D A B /\ sep D ((A ++ B) :: r) (cdist D A B).
Proof.
  intros Hinv Hsep Hin Hmin. pose proof (pairs2_perm _ _ _ _ Hin) as P.
  pose proof Hinv as (Hne & _ & _ & _).
  assert (HA : In A cl) by (apply (Permutation_in A (Permutation_sym P)); left; reflexivity).
  assert (HB : In B cl) by (apply (Permutation_in B (Permutation_sym P)); right; left; reflexivity).
  split.
  - destruct (cdist_witness D A B (Hne A HA) (Hne B HB)) as (a0 & b0 & Ha0 & Hb0 & ->).
    apply Hsep.
    + exists A. tauto.
    + exists B. tauto.
    + apply (merged_not_same n cl A B r a0 b0 Hinv P Ha0 Hb0).
  - intros a b Ha Hb Hns. apply (step_height_min D cl A B Hmin).
    + apply (in_cl_merge cl A B r a P Ha).
    + apply (in_cl_merge cl A B r b P Hb).
    + intros Hs. apply Hns. apply (same_cl_merge cl A B r a b P Hs).
Qed.

Lemma threshold_graph_in n D t i j :
  In (i, j) (threshold_graph n D t) <-> i < n /\ j < n /\ i <> j /\ D i j <= t.
Proof.
  unfold threshold_graph. rewrite filter_In, in_prod_iff, !in_seq. simpl.
  rewrite andb_true_iff, negb_true_iff, Nat.eqb_neq, Nat.leb_le. lia.
Qed.

Lemma threshold_graph_mono n D t t' : t <= t' -> incl (threshold_graph n D t) (threshold_graph n D t').
Proof.
  intros Hle [i j] H. apply threshold_graph_in in H. apply threshold_graph_in. lia.
Qed.

Lemma star_connected M a b : In a M -> In b M -> connected (star M) a b.
Proof.
  destruct M as [|x l]; [contradiction|].
  assert (H : forall y, In y (x :: l) -> connected (star (x :: l)) x y).
  { intros y [<-|Hy]; [apply conn_refl|]. apply connected_edge. left. simpl. apply in_map_iff.
    exists y. split; [reflexivity|exact Hy]. }
  intros Ha Hb. eapply connected_trans; [apply connected_sym; apply H; exact Ha|apply H; exact Hb].
Qed.

Lemma star_in M a b : In (a, b) (star M) -> In a M /\ In b M.
Proof.
  destruct M as [|x l]; [contradiction|]. simpl. intros H. apply in_map_iff in H.
  destruct H as (y & Heq & Hy). injection Heq as <- <-. auto.
Qed.

(* replacing every edge by a path *)
Lemma connected_via E E' u v :
  (forall a b, In (a, b) E -> connected E' a b) -> connected E u v -> connected E' u v.
Proof.
  intros H. induction 1 as [u|u v w Huv IH Hedge]; [apply conn_refl|].
  eapply connected_trans; [exact IH|]. destruct Hedge as [Hin|Hin].
  - apply H. exact Hin.
  - apply connected_sym. apply H. exact Hin.
Qed.

(* --- soundness and monotone heights --- *)
Lemma sl_sound n D : forall fuel cl lo,
  cl_inv n cl ->
  (forall a b, same_cl cl a b -> connected (threshold_graph n D lo) a b) ->
  sep D cl lo ->
  forall M h, In (M, h) (sl_run fuel D cl) ->
    lo <= h /\ (forall a, In a M -> a < n) /\
    (forall a b, In a M -> In b M -> connected (threshold_graph n D h) a b).
Proof.
  induction fuel as [|f IH]; intros cl lo Hinv Hconn Hsep M h HM; simpl in HM; [contradiction|].
  destruct (sl_step D cl) as [[mh cl']|] eqn:E; [|contradiction]. simpl in HM.
  apply sl_step_some in E. destruct E as (A & B & r & Hin & -> & -> & Hmin).
  pose proof (pairs2_perm _ _ _ _ Hin) as P.
  destruct (sep_step n D cl lo A B r Hinv Hsep Hin Hmin) as [Hlo Hsep'].
  pose proof (cl_inv_merge n cl A B r Hinv P) as Hinv'.
  set (h0 := cdist D A B) in *.
  pose proof Hinv as (Hne & _ & Hrng & _).
  assert (HA : In A cl) by (apply (Permutation_in A (Permutation_sym P)); left; reflexivity).
  assert (HB : In B cl) by (apply (Permutation_in B (Permutation_sym P)); right; left; reflexivity).
  assert (Hmono : incl (threshold_graph n D lo) (threshold_graph n D h0)) by (apply threshold_graph_mono; exact Hlo).
  (* the new cluster is connected at its own height *)
  assert (HconnM : forall a b, In a (A ++ B) -> In b (A ++ B) -> connected (threshold_graph n D h0) a b).
  { destruct (cdist_witness D A B (Hne A HA) (Hne B HB)) as (a0 & b0 & Ha0 & Hb0 & Hh0). fold h0 in Hh0.
    assert (H0 : connected (threshold_graph n D h0) a0 b0).
    { destruct (Nat.eq_dec a0 b0) as [->|Hab]; [apply conn_refl|]. apply connected_edge. left.
      apply threshold_graph_in. repeat split; [apply (Hrng A)|apply (Hrng B)| |]; auto. lia. }
    assert (Hto : forall x, In x (A ++ B) -> connected (threshold_graph n D h0) a0 x).
    { intros x Hx. apply in_app_or in Hx. destruct Hx as [Hx|Hx].
      - apply (connected_incl _ _ _ _ Hmono). apply Hconn. exists A. tauto.
      - eapply connected_trans; [exact H0|]. apply (connected_incl _ _ _ _ Hmono). apply Hconn. exists B. tauto. }
    intros a b Ha Hb. eapply connected_trans; [apply connected_sym; apply Hto; exact Ha|apply Hto; exact Hb]. }
  destruct HM as [HM|HM].
  - injection HM as <- <-. split; [exact Hlo|]. split; [|exact HconnM].
    intros a Ha. destruct Hinv' as (_ & _ & Hrng' & _). apply (Hrng' (A ++ B)); [left; reflexivity|exact Ha].
  - assert (Hconn' : forall a b, same_cl ((A ++ B) :: r) a b -> connected (threshold_graph n D h0) a b).
    { intros a b (C & [<-|HC] & Ha & Hb).
      - apply HconnM; assumption.
      - apply (connected_incl _ _ _ _ Hmono). apply Hconn. exists C.
        split; [apply (Permutation_in C (Permutation_sym P)); right; right; exact HC|tauto]. }
    destruct (IH _ h0 Hinv' Hconn' Hsep' M h HM) as (H1 & H2 & H3).
    split; [lia|]. split; assumption.
Qed.

Theorem single_linkage_heights_sorted n D : StronglySorted le (map snd (single_linkage n D)).
Proof.
  unfold single_linkage.
  assert (G : forall fuel cl lo, cl_inv n cl -> sep D cl lo ->
              Forall (le lo) (map snd (sl_run fuel D cl)) /\ StronglySorted le (map snd (sl_run fuel D cl))).
  { induction fuel as [|f IH]; intros cl lo Hinv Hsep; simpl; [split; constructor|].
    destruct (sl_step D cl) as [[mh cl']|] eqn:E; [|split; constructor]. simpl.
    apply sl_step_some in E. destruct E as (A & B & r & Hin & -> & -> & Hmin).
    pose proof (pairs2_perm _ _ _ _ Hin) as P.
    destruct (sep_step n D cl lo A B r Hinv Hsep Hin Hmin) as [Hlo Hsep'].
    destruct (IH _ _ (cl_inv_merge n cl A B r Hinv P) Hsep') as [HF HS]. simpl. split.
    - constructor; [exact Hlo|]. eapply Forall_impl; [|exact HF]. intros x Hx. simpl in Hx. lia.
    - constructor; assumption. }
  apply (G n (singletons n) 0 (singletons_inv n)). intros a b _ _ _. lia.
Qed.

(* --- completeness --- *)
Lemma sl_complete n D t : forall fuel cl E0,
  length cl <= fuel -> cl_inv n cl ->
  (forall a b, same_cl cl a b -> connected E0 a b) ->
  forall u v, u < n -> v < n -> D u v <= t ->
  connected (E0 ++ cut_edges t (sl_run fuel D cl)) u v.
Proof.
  induction fuel as [|f IH]; intros cl E0 Hlen Hinv Hconn u v Hu Hv Hd.
  - destruct cl; [|simpl in Hlen; lia]. destruct Hinv as (_ & Hcov & _). destruct (Hcov u Hu) as (C & [] & _).
  - pose proof Hinv as (_ & Hcov & _ & _).
    destruct (Hcov u Hu) as (C1 & HC1 & Hu1). destruct (Hcov v Hv) as (C2 & HC2 & Hv2).
    assert (Hsame : C1 = C2 -> connected E0 u v).
    { intros ->. apply Hconn. exists C2. tauto. }
    simpl. destruct (sl_step D cl) as [[mh cl']|] eqn:E.
    + apply sl_step_some in E. destruct E as (A & B & r & Hin & -> & -> & Hmin).
      pose proof (pairs2_perm _ _ _ _ Hin) as P. simpl.
      destruct (Nat.leb_spec (cdist D A B) t) as [Hle|Hgt].
      * rewrite app_assoc. apply IH; auto.
        -- apply Permutation_length in P. simpl in P. simpl. lia.
        -- apply (cl_inv_merge n cl A B r Hinv P).
        -- intros a b (C & [<-|HC] & Ha & Hb).
           ++ apply (connected_incl (star (A ++ B))); [apply incl_appr, incl_refl|]. apply star_connected; assumption.
           ++ apply (connected_incl E0); [apply incl_appl, incl_refl|]. apply Hconn. exists C.
              split; [apply (Permutation_in C (Permutation_sym P)); right; right; exact HC|tauto].
      * simpl. apply (connected_incl E0); [apply incl_appl, incl_refl|].
        destruct (list_eq_dec Nat.eq_dec C1 C2) as [Heq|Hne]; [apply Hsame; exact Heq|exfalso].
        destruct (pairs2_in cl C1 C2 HC1 HC2 Hne) as [r' Hr'].
        specialize (Hmin _ _ _ Hr'). pose proof (cdist_le D C1 C2 u v Hu1 Hv2). lia.
    + apply sl_step_none in E. simpl. rewrite app_nil_r.
      destruct (list_eq_dec Nat.eq_dec C1 C2) as [Heq|Hne]; [apply Hsame; exact Heq|exfalso].
      destruct (pairs2_in cl C1 C2 HC1 HC2 Hne) as [r' Hr']. rewrite E in Hr'. contradiction.
Qed.

Lemma cut_edges_in t dendro a b :
  In (a, b) (cut_edges t dendro) -> exists M h, In (M, h) dendro /\ h <= t /\ In a M /\ In b M.
Proof.
  unfold cut_edges. intros H. apply in_flat_map in H. destruct H as ([M h] & HM & H). simpl in H.
  destruct (Nat.leb_spec h t) as [Hle|Hgt]; [|contradiction].
  apply star_in in H. exists M, h. tauto.
Qed.

Lemma sl_cut_edges_ok n D t : edges_ok n (cut_edges t (single_linkage n D)).
Proof.
  unfold edges_ok. apply Forall_forall. intros [a b] H. apply cut_edges_in in H.
  destruct H as (M & h & HM & _ & Ha & Hb). unfold single_linkage in HM.
  destruct (sl_sound n D n (singletons n) 0 (singletons_inv n)) with (M := M) (h := h) as (_ & Hrng & _); auto.
  - intros x y Hs. apply singletons_same in Hs. subst. apply conn_refl.
  - intros x y _ _ _. lia.
Qed.

(* MAIN: cutting the single-linkage dendrogram at t gives the components of the threshold graph *)
Theorem single_linkage_cut n D t u v :
  u < n -> v < n ->
  (nth u (sl_cut n D t) 0 = nth v (sl_cut n D t) 0 <-> connected (threshold_graph n D t) u v).
Proof.
  intros Hu Hv. unfold sl_cut.
  rewrite (components_spec n _ u v (sl_cut_edges_ok n D t) Hu Hv). split.
  - apply connected_via. intros a b H. apply cut_edges_in in H.
    destruct H as (M & h & HM & Hle & Ha & Hb). unfold single_linkage in HM.
    destruct (sl_sound n D n (singletons n) 0 (singletons_inv n)) with (M := M) (h := h) as (_ & _ & Hc); auto.
    + intros x y Hs. apply singletons_same in Hs. subst. apply conn_refl.
    + intros x y _ _ _. lia.
    + apply (connected_incl _ _ _ _ (threshold_graph_mono n D h t Hle)). apply Hc; assumption.
  - apply connected_via. intros a b H. apply threshold_graph_in in H. destruct H as (Ha & Hb & _ & Hd).
    apply (sl_complete n D t n (singletons n) [] ); auto.
    + unfold singletons. rewrite map_length, seq_length. lia.
    + apply singletons_inv.
    + intros x y Hs. apply singletons_same in Hs. subst. apply conn_refl.
Qed.

(* two edge lists with the same (undirected) edges have the same connectivity *)
Lemma connected_same_edges E E' u v :
  (forall a b, In (a, b) E <-> In (a, b) E') -> (connected E u v <-> connected E' u v).
Proof.
  intros H. split; apply connected_incl; intros [a b] Hin; apply H; exact Hin.
Qed.

Example single_linkage_ex :
  let D := mat_dist [[0;1;5;6];[1;0;2;7];[5;2;0;9];[6;7;9;0]] in
  single_linkage 4 D = [([0;1], 1); ([0;1;2], 2); ([0;1;2;3], 6)] /\
  sl_cut 4 D 0 = [0;1;2;3] /\ sl_cut 4 D 1 = [0;0;2;3] /\ sl_cut 4 D 2 = [0;0;0;3] /\ sl_cut 4 D 6 = [0;0;0;0] /\
  threshold_graph 4 D 1 = [(0,1);(1,0)].
Proof. vm_compute. repeat split. Qed.

Print Assumptions single_linkage_cut.
Print Assumptions single_linkage_heights_sorted.
