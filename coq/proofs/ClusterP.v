(* C15: the executable component labelling computes exactly path connectivity. *)
From Coq Require Import List Arith Bool Lia.
From PV Require Import model.Cluster.
Import ListNotations.

(* ---------- a. connectivity is an equivalence, monotone in the edge list ---------- *)
Lemma connected_trans E u v w : connected E u v -> connected E v w -> connected E u w.
Proof.
  intros Huv Hvw. induction Hvw as [v|v w z Hvw IH Hedge].
  - exact Huv.
  - eapply conn_step; [apply IH; exact Huv|exact Hedge].
Qed.

Lemma connected_edge E u v : In (u, v) E \/ In (v, u) E -> connected E u v.
Proof. intros H. eapply conn_step; [apply conn_refl|exact H]. Qed.

Lemma connected_sym E u v : connected E u v -> connected E v u.
Proof.
  induction 1 as [u|u v w Huv IH Hedge].
  - apply conn_refl.
  - eapply connected_trans; [|exact IH]. apply connected_edge. tauto.
Qed.

Lemma connected_incl E E' u v : incl E E' -> connected E u v -> connected E' u v.
Proof.
  intros Hincl. induction 1 as [u|u v w Huv IH Hedge].
  - apply conn_refl.
  - eapply conn_step; [exact IH|]. destruct Hedge as [Hin|Hin]; [left|right]; apply Hincl; exact Hin.
Qed.

Lemma connected_nil u v : connected [] u v <-> u = v.
Proof.
  split.
  - induction 1 as [u|u v w Huv IH Hedge]; [reflexivity|]. destruct Hedge as [[]|[]].
  - intros ->. apply conn_refl.
Qed.

(* ---------- b. adding one edge ---------- *)
Lemma connected_snoc E x y u v :
  connected (E ++ [(x, y)]) u v <->
  connected E u v \/ (connected E u x /\ connected E y v) \/ (connected E u y /\ connected E x v).
Proof.
  split.
  - induction 1 as [u|u v w Huv IH Hedge].
    + left. apply conn_refl.
    + assert (Hcases : (In (v, w) E \/ In (w, v) E) \/ (v = x /\ w = y) \/ (v = y /\ w = x)).
      { destruct Hedge as [Hin|Hin]; apply in_app_or in Hin; destruct Hin as [Hin|Hin].
        - left; left; exact Hin.
        - destruct Hin as [Heq|[]]. injection Heq as Hx Hy. right; left; split; congruence.
        - left; right; exact Hin.
        - destruct Hin as [Heq|[]]. injection Heq as Hx Hy. right; right; split; congruence. }
      destruct Hcases as [HinE|[[-> ->]|[-> ->]]].
      * destruct IH as [H1|[[H1 H2]|[H1 H2]]].
        -- left. eapply conn_step; eauto.
        -- right; left. split; [exact H1|]. eapply conn_step; eauto.
        -- right; right. split; [exact H1|]. eapply conn_step; eauto.
      * destruct IH as [H1|[[H1 H2]|[H1 H2]]].
        -- right; left. split; [exact H1|apply conn_refl].
        -- right; left. split; [exact H1|apply conn_refl].
        -- left. exact H1.
      * destruct IH as [H1|[[H1 H2]|[H1 H2]]].
        -- right; right. split; [exact H1|apply conn_refl].
        -- left. exact H1.
        -- right; right. split; [exact H1|apply conn_refl].
  - assert (Hincl : incl E (E ++ [(x, y)])) by (apply incl_appl, incl_refl).
    assert (Hxy : connected (E ++ [(x, y)]) x y).
    { apply connected_edge. left. apply in_or_app. right. now left. }
    intros [H1|[[H1 H2]|[H1 H2]]].
    + eapply connected_incl; eauto.
    + eapply connected_trans; [eapply connected_incl; eauto|].
      eapply connected_trans; [exact Hxy|]. eapply connected_incl; eauto.
    + eapply connected_trans; [eapply connected_incl; eauto|].
      eapply connected_trans; [apply connected_sym; exact Hxy|]. eapply connected_incl; eauto.
Qed.

(* ---------- c. the labelling invariant ---------- *)
(* lab is a valid labelling of the graph (n, E0) *)
Definition valid (n : nat) (E0 : list edge) (lab : list nat) : Prop :=
  length lab = n /\
  forall u v, u < n -> v < n -> (nth u lab 0 = nth v lab 0 <-> connected E0 u v).

(* every label is a node id that labels itself (a class representative) *)
Definition reps (n : nat) (lab : list nat) : Prop :=
  forall u, u < n -> nth u lab 0 < n /\ nth (nth u lab 0) lab 0 = nth u lab 0.

Lemma merge_length lab e : length (merge lab e) = length lab.
Proof. unfold merge. apply map_length. Qed.

Lemma merge_nth lab x y u :
  u < length lab ->
  nth u (merge lab (x, y)) 0 =
  if Nat.eqb (nth u lab 0) (nth y lab 0) then nth x lab 0 else nth u lab 0.
Proof.
  intros Hu. unfold merge. simpl fst; simpl snd.
  set (f := fun l => if Nat.eqb l (nth y lab 0) then nth x lab 0 else l).
  rewrite (nth_indep (map f lab) 0 (f 0)) by (rewrite map_length; exact Hu).
  rewrite map_nth. reflexivity.
Qed.

Lemma valid_init n : valid n [] (seq 0 n).
Proof.
  split; [apply seq_length|]. intros u v Hu Hv.
  rewrite !seq_nth by assumption. simpl. symmetry. apply connected_nil.
Qed.

Lemma reps_init n : reps n (seq 0 n).
Proof.
  intros u Hu. rewrite !seq_nth by (simpl; assumption). simpl. lia.
Qed.

Lemma valid_merge n E0 lab x y :
  x < n -> y < n -> valid n E0 lab -> valid n (E0 ++ [(x, y)]) (merge lab (x, y)).
Proof.
  intros Hx Hy [Hlen Hval]. split; [rewrite merge_length; exact Hlen|].
  intros u v Hu Hv.
  rewrite !merge_nth by lia.
  rewrite connected_snoc.
  rewrite <- (Hval u v Hu Hv), <- (Hval u x Hu Hx), <- (Hval y v Hy Hv),
          <- (Hval u y Hu Hy), <- (Hval x v Hx Hv).
  destruct (Nat.eqb_spec (nth u lab 0) (nth y lab 0)) as [Euy|Euy];
  destruct (Nat.eqb_spec (nth v lab 0) (nth y lab 0)) as [Evy|Evy]; lia.
Qed.

Lemma reps_merge n lab x y :
  length lab = n -> x < n -> y < n -> reps n lab -> reps n (merge lab (x, y)).
Proof.
  intros Hlen Hx Hy Hrep u Hu.
  destruct (Hrep u Hu) as [Hul Huf]. destruct (Hrep x Hx) as [Hxl Hxf].
  rewrite (merge_nth lab x y u) by lia.
  destruct (Nat.eqb_spec (nth u lab 0) (nth y lab 0)) as [Euy|Euy].
  - split; [exact Hxl|]. rewrite merge_nth by lia. rewrite Hxf.
    destruct (Nat.eqb (nth x lab 0) (nth y lab 0)); reflexivity.
  - split; [exact Hul|]. rewrite merge_nth by lia. rewrite Huf.
    destruct (Nat.eqb_spec (nth u lab 0) (nth y lab 0)) as [E'|E']; [contradiction|reflexivity].
Qed.

Lemma fold_valid n E : forall E0 lab,
  edges_ok n E -> valid n E0 lab -> valid n (E0 ++ E) (fold_left merge E lab).
Proof.
  induction E as [|[x y] E IH]; intros E0 lab Hok Hval; simpl.
  - rewrite app_nil_r. exact Hval.
  - inversion Hok as [|e E' [Hx Hy] Hok']; subst. simpl in Hx, Hy.
    pose proof (IH (E0 ++ [(x, y)]) (merge lab (x, y)) Hok' (valid_merge n E0 lab x y Hx Hy Hval)) as Hnew.
    rewrite <- app_assoc in Hnew. simpl in Hnew. exact Hnew.
Qed.

Lemma fold_reps n E : forall lab,
  edges_ok n E -> length lab = n -> reps n lab ->
  length (fold_left merge E lab) = n /\ reps n (fold_left merge E lab).
Proof.
  induction E as [|[x y] E IH]; intros lab Hok Hlen Hrep; simpl.
  - split; assumption.
  - inversion Hok as [|e E' [Hx Hy] Hok']; subst. simpl in Hx, Hy.
    apply IH; [exact Hok'|rewrite merge_length; reflexivity|].
    apply reps_merge; auto.
Qed.

Lemma components_valid n E : edges_ok n E -> valid n E (components n E).
Proof.
  intros Hok. unfold components.
  change E with ([] ++ E) at 1. apply fold_valid; [exact Hok|apply valid_init].
Qed.

(* MAIN *)
Theorem components_spec n E u v :
  edges_ok n E -> u < n -> v < n ->
  (nth u (components n E) 0 = nth v (components n E) 0 <-> connected E u v).
Proof.
  intros Hok Hu Hv. destruct (components_valid n E Hok) as [_ Hval]. apply Hval; assumption.
Qed.

(* ---------- d. shape of the labelling ---------- *)
(* no edges_ok needed: merge preserves the length whatever the edge *)
Theorem components_length n E : length (components n E) = n.
Proof.
  unfold components.
  assert (H : forall lab, length (fold_left merge E lab) = length lab).
  { induction E as [|e E IH]; intros lab; simpl; [reflexivity|]. rewrite IH. apply merge_length. }
  rewrite H. apply seq_length.
Qed.

(* the label of u is the id of a node of u's class, and that node labels itself *)
Theorem components_label n E u :
  edges_ok n E -> u < n ->
  nth u (components n E) 0 < n /\
  nth (nth u (components n E) 0) (components n E) 0 = nth u (components n E) 0 /\
  connected E u (nth u (components n E) 0).
Proof.
  intros Hok Hu.
  destruct (fold_reps n E (seq 0 n) Hok (seq_length n 0) (reps_init n)) as [_ Hrep].
  fold (components n E) in Hrep. destruct (Hrep u Hu) as [Hlt Hfix].
  split; [exact Hlt|]. split; [exact Hfix|].
  apply (components_spec n E u (nth u (components n E) 0) Hok Hu Hlt). symmetry. exact Hfix.
Qed.

(* ---------- e. graph_cc ---------- *)
Lemma count_occ_two (l : list nat) : forall u, u < length l ->
  (1 < count_occ Nat.eq_dec l (nth u l 0) <->
   exists v, v < length l /\ v <> u /\ nth v l 0 = nth u l 0).
Proof.
  induction l as [|a l IH]; intros u Hu; simpl in Hu; [lia|].
  destruct u as [|u].
  - simpl nth at 1. simpl count_occ. destruct (Nat.eq_dec a a) as [_|Hne]; [|contradiction].
    split.
    + intros Hc. assert (Hin : In a l) by (apply (count_occ_In Nat.eq_dec); lia).
      destruct (In_nth l a 0 Hin) as (k & Hk & Hnth).
      exists (S k). simpl. split; [lia|]. split; [lia|exact Hnth].
    + intros (v & Hv & Hvu & Hnth). destruct v as [|v]; [contradiction|].
      simpl in Hv, Hnth.
      assert (Hin : In a l) by (rewrite <- Hnth; apply nth_In; lia).
      apply (count_occ_In Nat.eq_dec) in Hin. lia.
  - assert (Hu' : u < length l) by lia.
    simpl nth at 1. simpl count_occ.
    destruct (Nat.eq_dec a (nth u l 0)) as [Ha|Ha].
    + split.
      * intros _. exists 0. simpl. split; [lia|]. split; [lia|exact Ha].
      * intros _. assert (Hin : In (nth u l 0) l) by (apply nth_In; exact Hu').
        apply (count_occ_In Nat.eq_dec) in Hin. lia.
    + rewrite (IH u Hu'). split.
      * intros (v & Hv & Hvu & Hnth). exists (S v). simpl. split; [lia|]. split; [lia|exact Hnth].
      * intros (v & Hv & Hvu & Hnth). destruct v as [|v]; simpl in Hv, Hnth; [contradiction|].
        exists v. split; [lia|]. split; [lia|exact Hnth].
Qed.

Lemma in_combine_seq (lab : list nat) n u c :
  length lab = n ->
  (In (u, c) (combine (seq 0 n) lab) <-> u < n /\ c = nth u lab 0).
Proof.
  intros Hlen. split.
  - intros Hin. destruct (In_nth _ _ (0, 0) Hin) as (k & Hk & Hnth).
    rewrite combine_length, seq_length, Hlen, Nat.min_id in Hk.
    rewrite combine_nth in Hnth by (rewrite seq_length; lia).
    rewrite seq_nth in Hnth by exact Hk. simpl in Hnth. injection Hnth as Hu Hc. subst u.
    split; [exact Hk|]. symmetry; exact Hc.
  - intros [Hu ->].
    assert (Heq : (u, nth u lab 0) = nth u (combine (seq 0 n) lab) (0, 0)).
    { rewrite combine_nth by (rewrite seq_length; lia). rewrite seq_nth by exact Hu. reflexivity. }
    rewrite Heq. apply nth_In. rewrite combine_length, seq_length, Hlen, Nat.min_id. exact Hu.
Qed.

Theorem graph_cc_spec n E u c :
  edges_ok n E ->
  (In (u, c) (graph_cc n E) <->
   u < n /\ c = nth u (components n E) 0 /\ exists v, v < n /\ v <> u /\ connected E u v).
Proof.
  intros Hok. unfold graph_cc. rewrite filter_In.
  rewrite (in_combine_seq _ n u c (components_length n E)). simpl snd. unfold cluster_size.
  rewrite Nat.ltb_lt.
  split.
  - intros [[Hu Hc] Hcnt]. split; [exact Hu|]. split; [exact Hc|]. subst c.
    apply count_occ_two in Hcnt; [|rewrite components_length; exact Hu].
    destruct Hcnt as (v & Hv & Hvu & Hnth). rewrite components_length in Hv.
    exists v. split; [exact Hv|]. split; [exact Hvu|].
    apply (components_spec n E u v Hok Hu Hv). symmetry. exact Hnth.
  - intros (Hu & Hc & v & Hv & Hvu & Hconn). split; [split; assumption|]. subst c.
    apply count_occ_two; [rewrite components_length; exact Hu|].
    exists v. rewrite components_length. split; [exact Hv|]. split; [exact Hvu|].
    symmetry. apply (components_spec n E u v Hok Hu Hv). exact Hconn.
Qed.

(* a node connected to no other node never appears *)
Corollary graph_cc_isolated n E u c :
  edges_ok n E -> (forall v, v < n -> connected E u v -> v = u) -> ~ In (u, c) (graph_cc n E).
Proof.
  intros Hok Hiso Hin. apply graph_cc_spec in Hin; [|exact Hok].
  destruct Hin as (_ & _ & v & Hv & Hvu & Hconn). apply Hvu. apply Hiso; assumption.
Qed.

(* no edges: no cluster of size > 1, so nothing is reported *)
Corollary graph_cc_nil n : graph_cc n [] = [].
Proof.
  destruct (graph_cc n []) as [|[u c] l] eqn:Heq; [reflexivity|exfalso].
  assert (Hin : In (u, c) (graph_cc n [])) by (rewrite Heq; now left).
  apply graph_cc_spec in Hin; [|constructor].
  destruct Hin as (_ & _ & v & Hv & Hvu & Hconn). apply connected_nil in Hconn. congruence.
Qed.

(* ---------- f. refinement check ---------- *)
Lemma refines_spec0 P Q :
  refines P Q = true <->
  forall i j, i < length P -> j < length P -> nth i P 0 = nth j P 0 -> nth i Q 0 = nth j Q 0.
Proof.
  unfold refines. rewrite forallb_forall. split.
  - intros H i j Hi Hj Heq.
    assert (Hi' : In i (seq 0 (length P))) by (apply in_seq; lia).
    assert (Hj' : In j (seq 0 (length P))) by (apply in_seq; lia).
    specialize (H i Hi'). rewrite forallb_forall in H. specialize (H j Hj').
    apply Nat.eqb_eq in Heq. rewrite Heq in H. simpl in H. apply Nat.eqb_eq. exact H.
  - intros H i Hi. apply forallb_forall. intros j Hj.
    apply in_seq in Hi. apply in_seq in Hj.
    destruct (Nat.eqb_spec (nth i P 0) (nth j P 0)) as [Heq|Hne]; simpl; [|reflexivity].
    apply Nat.eqb_eq. apply H; [lia|lia|exact Heq].
Qed.

(* as requested (the length hypothesis is not actually needed, see refines_spec0) *)
Theorem refines_spec P Q :
  length P = length Q ->
  (refines P Q = true <->
   forall i j, i < length P -> j < length P -> nth i P 0 = nth j P 0 -> nth i Q 0 = nth j Q 0).
Proof. intros _. apply refines_spec0. Qed.

Corollary refines_components n E P :
  edges_ok n E -> length P = n ->
  (refines P (components n E) = true <->
   forall i j, i < n -> j < n -> nth i P 0 = nth j P 0 -> connected E i j).
Proof.
  intros Hok Hlen. rewrite refines_spec by (rewrite components_length; exact Hlen).
  rewrite Hlen. split.
  - intros H i j Hi Hj Heq. apply (components_spec n E i j Hok Hi Hj). apply H; assumption.
  - intros H i j Hi Hj Heq. apply (components_spec n E i j Hok Hi Hj). apply H; assumption.
Qed.

(* sanity: 0-1-2 chained, 3 isolated, 4-5 paired *)
Example components_ex :
  components 6 [(1, 2); (0, 1); (5, 4)] = [0; 0; 0; 3; 5; 5] /\
  graph_cc 6 [(1, 2); (0, 1); (5, 4)] = [(0, 0); (1, 0); (2, 0); (4, 5); (5, 5)] /\
  refines [7; 7; 8; 9; 4; 4] (components 6 [(1, 2); (0, 1); (5, 4)]) = true /\
  refines [7; 7; 7; 7; 4; 4] (components 6 [(1, 2); (0, 1); (5, 4)]) = false.
Proof. vm_compute. repeat split. Qed.

(* edges_ok is necessary: an out-of-range endpoint reads the default label 0 and
   wrongly merges node 1 into node 0's class although 0 and 1 are not connected *)
Example components_needs_edges_ok :
  components 2 [(5, 1)] = [0; 0] /\ ~ connected [(5, 1)] 0 1.
Proof.
  split; [reflexivity|]. intros H.
  assert (G : forall u v, connected [(5, 1)] u v -> u = 0 -> v = 0).
  { induction 1 as [u|u v w Huv IH Hedge]; intros Hu0; [exact Hu0|].
    specialize (IH Hu0). subst v.
    destruct Hedge as [[Heq|[]]|[Heq|[]]]; discriminate Heq. }
  specialize (G 0 1 H eq_refl). discriminate G.
Qed.

Print Assumptions connected_sym.
Print Assumptions connected_trans.
Print Assumptions connected_incl.
Print Assumptions connected_snoc.
Print Assumptions components_spec.
Print Assumptions components_length.
Print Assumptions components_label.
Print Assumptions graph_cc_spec.
Print Assumptions graph_cc_isolated.
Print Assumptions graph_cc_nil.
Print Assumptions refines_spec.
Print Assumptions refines_components.
