(* C08 (extension): the loop nests of distance.pdist / distance.cdist, REGENERATED from the source text into
   gen/Gen_c08.v on every run, are equal to the hand-written layout model of lib/Condensed.v for all inputs.

   Shape of the argument.  The generic lemmas below speak about ABSTRACT loop bodies (`obody`, `ibody`) and give the
   loop invariant: after the rows < i the first |urows m i| cells hold the model's values, the remaining cells are still
   the np.empty default, and k is the running count.  The two final theorems unfold the generated text, apply the
   invariant lemmas, and are left with one obligation per source statement: the range bounds (lia), the size of the
   np.empty vector, and "one iteration of the body stores f(x_i, x_j) at cell k and advances k" -- this is where a
   changed source text (range(i, m), swapped arguments, k advanced before the store, dm[j, i]) stops the proof. *)
From Coq Require Import List Arith ZArith Lia.
From PV Require Import lib.Condensed lib.PyStore proofs.CondensedP gen.Gen_c08.
Import ListNotations.

(* ------------------------------------------------------------------ *)
(* fold_left, upd, and the Python-index wrappers on natural positions   *)
(* ------------------------------------------------------------------ *)

Lemma fold_left_map_in {A B C : Type} (g : A -> C -> A) (h : B -> C) (l : list B) (a : A) :
  fold_left g (map h l) a = fold_left (fun a x => g a (h x)) l a.
Proof. revert a. induction l as [|x l IH]; intros a; simpl; [reflexivity|apply IH]. Qed.

Lemma upd_length {A : Type} (k : nat) (v : A) (l : list A) : length (upd k v l) = length l.
Proof. revert k. induction l as [|h t IH]; intros [|k]; simpl; auto. Qed.

Lemma upd_oob {A : Type} (k : nat) (v : A) (l : list A) : length l <= k -> upd k v l = l.
Proof.
  revert k. induction l as [|h t IH]; intros [|k] Hk; simpl in *; try reflexivity; [lia|].
  f_equal. apply IH. lia.
Qed.

Lemma upd_app_length {A : Type} (a : list A) (x v : A) (b : list A) :
  upd (length a) v (a ++ x :: b) = a ++ v :: b.
Proof. induction a as [|h t IH]; simpl; [reflexivity|]. f_equal. exact IH. Qed.

Lemma zupd_nat {A : Type} (k : nat) (v : A) (l : list A) : zupd (Z.of_nat k) v l = upd k v l.
Proof.
  unfold zupd, pyidx.
  destruct (Z.leb_spec 0 (Z.of_nat k)) as [_|H]; [|lia].
  destruct (Z.ltb_spec (Z.of_nat k) (Z.of_nat (length l))) as [H|H].
  - rewrite Nat2Z.id. reflexivity.
  - symmetry. apply upd_oob. lia.
Qed.

Lemma znth_nat {A : Type} (i : nat) (l : list A) (d : A) : znth (Z.of_nat i) l d = nth i l d.
Proof.
  unfold znth, pyidx.
  destruct (Z.leb_spec 0 (Z.of_nat i)) as [_|H]; [|lia].
  destruct (Z.ltb_spec (Z.of_nat i) (Z.of_nat (length l))) as [H|H].
  - rewrite Nat2Z.id. reflexivity.
  - symmetry. apply nth_overflow. lia.
Qed.

Lemma zupd2_nat {A : Type} (i j : nat) (v : A) (M : list (list A)) :
  zupd2 (Z.of_nat i) (Z.of_nat j) v M = upd2 i j v M.
Proof.
  unfold zupd2, upd2, pyidx.
  destruct (Z.leb_spec 0 (Z.of_nat i)) as [_|H]; [|lia].
  destruct (Z.ltb_spec (Z.of_nat i) (Z.of_nat (length M))) as [H|H].
  - rewrite Nat2Z.id, zupd_nat. reflexivity.
  - symmetry. apply upd_oob. lia.
Qed.

Lemma map_shift_seq (a n s : nat) :
  map (fun t => (Z.of_nat a + Z.of_nat t)%Z) (seq s n) = map Z.of_nat (seq (a + s) n).
Proof.
  revert s. induction n as [|n IH]; intros s; simpl; [reflexivity|].
  f_equal; [lia|]. rewrite IH. replace (a + S s) with (S (a + s)) by lia. reflexivity.
Qed.

(* range(a, b) from a natural start: the naturals a, a+1, ..., b-1 (none when b <= a, also when b is negative) *)
Lemma zrange_nat (a : nat) (b : Z) : zrange (Z.of_nat a) b = map Z.of_nat (seq a (Z.to_nat b - a)).
Proof.
  unfold zrange. replace (Z.to_nat (b - Z.of_nat a)) with (Z.to_nat b - a) by lia.
  rewrite map_shift_seq. rewrite Nat.add_0_r. reflexivity.
Qed.

Lemma map_nth_seq {A B : Type} (h : A -> B) (l : list A) (d : A) :
  map (fun j => h (nth j l d)) (seq 0 (length l)) = map h l.
Proof.
  rewrite <- (map_map (fun j => nth j l d) h). f_equal.
  apply nth_ext with (d := d) (d' := d).
  - rewrite map_length, seq_length. reflexivity.
  - intros n Hn. rewrite map_length, seq_length in Hn.
    rewrite (nth_indep _ d (nth 0 l d)) by (rewrite map_length, seq_length; exact Hn).
    rewrite (map_nth (fun j => nth j l d) (seq 0 (length l)) 0 n), seq_nth by exact Hn. reflexivity.
Qed.

(* ------------------------------------------------------------------ *)
(* rows of the triangle                                                 *)
(* ------------------------------------------------------------------ *)

Lemma urows_prefix (m k k' : nat) : k <= k' -> exists t, urows m k' = urows m k ++ t.
Proof.
  intros Hk. unfold urows. replace k' with (k + (k' - k)) by lia.
  rewrite seq_app, flat_map_app. eexists. reflexivity.
Qed.

Lemma urows_pred (m : nat) : urows m (m - 1) = upper m.
Proof.
  rewrite upper_urows. destruct m as [|m]; [reflexivity|].
  replace (S m - 1) with m by lia. rewrite urows_S. unfold urow.
  rewrite Nat.sub_diag. simpl. rewrite app_nil_r. reflexivity.
Qed.

Section GenDist.
Context {X D : Type}.
Variable f : X -> X -> D.
Variable d0 : X.
Variable dd : D.

(* ------------------------------------------------------------------ *)
(* pdist: state (dm, k)                                                 *)
(* ------------------------------------------------------------------ *)

(* one row: n consecutive stores at the running counter fill the next n default cells *)
Lemma fill_range (ibody : list D * Z -> Z -> list D * Z) (g : nat -> D) (a b : Z) (s n : nat)
      (done : list D) (r : nat) :
  a = Z.of_nat s -> b = Z.of_nat (s + n) ->
  (forall j dm k, s <= j < s + n ->
     ibody (dm, Z.of_nat k) (Z.of_nat j) = (upd k (g j) dm, Z.of_nat (S k))) ->
  fold_left ibody (zrange a b) (done ++ repeat dd (n + r), Z.of_nat (length done))
  = (done ++ map g (seq s n) ++ repeat dd r, Z.of_nat (length done + n)).
Proof.
  intros -> -> Hbody. rewrite zrange_nat, fold_left_map_in.
  replace (Z.to_nat (Z.of_nat (s + n)) - s) with n by lia.
  revert s done Hbody. induction n as [|n IH]; intros s done Hbody.
  - simpl. rewrite Nat.add_0_r. reflexivity.
  - simpl seq. simpl fold_left. rewrite Hbody by lia.
    simpl repeat. rewrite upd_app_length.
    replace (done ++ g s :: repeat dd (n + r)) with ((done ++ [g s]) ++ repeat dd (n + r))
      by (rewrite <- app_assoc; reflexivity).
    replace (S (length done)) with (length (done ++ [g s])) by (rewrite app_length; simpl; lia).
    rewrite IH by (intros; apply Hbody; lia).
    rewrite app_length. simpl. rewrite <- app_assoc. simpl. f_equal. f_equal. lia.
Qed.

(* all rows: the invariant "rows < i are filled, the rest is untouched, k = number of filled cells" *)
Lemma rows_inv (obody : list D * Z -> Z -> list D * Z) (a b k0 : Z) (N : nat) (xs : list X) :
  a = 0%Z ->
  length xs - 1 <= Z.to_nat b <= length xs ->        (* range(0, m - 1); range(0, m) adds an empty last row *)
  N = length (upper (length xs)) -> k0 = 0%Z ->
  (forall i done r, i < length xs ->
     obody (done ++ repeat dd ((length xs - S i) + r), Z.of_nat (length done)) (Z.of_nat i)
     = (done ++ map (fun j => f (nth i xs d0) (nth j xs d0)) (seq (S i) (length xs - S i)) ++ repeat dd r,
        Z.of_nat (length done + (length xs - S i)))) ->
  fold_left obody (zrange a b) (repeat dd N, k0) = (pdist_loop f d0 xs, Z.of_nat N).
Proof.
  intros -> Hb HN -> Hbody. set (m := length xs) in *.
  change 0%Z with (Z.of_nat 0). rewrite zrange_nat, fold_left_map_in, Nat.sub_0_r.
  set (nb := Z.to_nat b) in *.
  set (gp := fun ij : nat * nat => f (nth (fst ij) xs d0) (nth (snd ij) xs d0)).
  assert (Inv : forall k, k <= m ->
     fold_left (fun st i => obody st (Z.of_nat i)) (seq 0 k) (repeat dd N, Z.of_nat 0)
     = (map gp (urows m k) ++ repeat dd (N - length (urows m k)), Z.of_nat (length (urows m k)))).
  { induction k as [|k IH]; intros Hk.
    - simpl. rewrite Nat.sub_0_r. reflexivity.
    - rewrite seq_S, fold_left_app, IH by lia. simpl fold_left.
      destruct (urows_prefix m (S k) m Hk) as [t Ht].
      assert (HL : N = length (urows m k) + (m - S k) + length t).
      { rewrite HN, upper_urows, Ht, urows_S, !app_length, length_urow. reflexivity. }
      replace (N - length (urows m k)) with ((m - S k) + length t) by lia.
      pose proof (Hbody k (map gp (urows m k)) (length t)) as Hk'. rewrite map_length in Hk'.
      rewrite Hk' by lia.
      rewrite urows_S, map_app, app_length, length_urow, <- app_assoc.
      unfold urow at 1. rewrite map_map.
      replace (N - (length (urows m k) + (m - S k))) with (length t) by lia.
      reflexivity. }
  assert (Hfin : urows m nb = upper m).
  { destruct (Nat.eq_dec nb m) as [->|Hne]; [symmetry; apply upper_urows|].
    replace nb with (m - 1) by lia. apply urows_pred. }
  rewrite (Inv nb) by lia. rewrite Hfin, <- HN, Nat.sub_diag. simpl. rewrite app_nil_r.
  reflexivity.
Qed.

(* size of the np.empty vector: (m * (m - 1)) // 2 over Python integers = number of pairs *)
Lemma tri_size (m : nat) : Z.to_nat (Z.of_nat m * (Z.of_nat m - 1) / 2) = length (upper m).
Proof.
  rewrite length_upper. destruct m as [|m]; [reflexivity|].
  replace (Z.of_nat (S m) * (Z.of_nat (S m) - 1))%Z with (Z.of_nat (S m * (S m - 1))) by lia.
  change 2%Z with (Z.of_nat 2). rewrite <- Nat2Z.inj_div, Nat2Z.id. reflexivity.
Qed.

(* ------------------------------------------------------------------ *)
(* cdist: state dm (a list of rows)                                     *)
(* ------------------------------------------------------------------ *)

Lemma upd2_row (i j : nat) (v : D) (done : list (list D)) (row : list D) (rest : list (list D)) :
  length done = i -> upd2 i j v (done ++ row :: rest) = done ++ upd j v row :: rest.
Proof. intros <-. unfold upd2. rewrite nth_middle, upd_app_length. reflexivity. Qed.

Lemma fill_row_aux (g : nat -> D) (n s r : nat) (pre : list D) :
  length pre = s ->
  fold_left (fun row j => upd j (g j) row) (seq s n) (pre ++ repeat dd (n + r))
  = pre ++ map g (seq s n) ++ repeat dd r.
Proof.
  revert s pre. induction n as [|n IH]; intros s pre Hs; subst s; simpl; [reflexivity|].
  rewrite upd_app_length.
  replace (pre ++ g (length pre) :: repeat dd (n + r)) with ((pre ++ [g (length pre)]) ++ repeat dd (n + r))
    by (rewrite <- app_assoc; reflexivity).
  rewrite IH by (rewrite app_length; simpl; lia).
  rewrite <- app_assoc. reflexivity.
Qed.

(* one row of the matrix: the stores dm[i, 0..n-1] replace the default row i and nothing else *)
Lemma mat_fill_row (ibody : list (list D) -> Z -> list (list D)) (g : nat -> D) (a b : Z) (i n : nat)
      (done rest : list (list D)) :
  a = 0%Z -> b = Z.of_nat n -> length done = i ->
  (forall j M, j < n -> ibody M (Z.of_nat j) = upd2 i j (g j) M) ->
  fold_left ibody (zrange a b) (done ++ repeat dd n :: rest) = done ++ map g (seq 0 n) :: rest.
Proof.
  intros -> -> Hd Hbody. change 0%Z with (Z.of_nat 0). rewrite zrange_nat, fold_left_map_in.
  replace (Z.to_nat (Z.of_nat n) - 0) with n by lia.
  assert (Inv : forall l row, (forall j, In j l -> j < n) ->
     fold_left (fun M j => ibody M (Z.of_nat j)) l (done ++ row :: rest)
     = done ++ fold_left (fun row j => upd j (g j) row) l row :: rest).
  { induction l as [|j l IH]; intros row Hl; simpl; [reflexivity|].
    rewrite Hbody by (apply Hl; left; reflexivity).
    rewrite (upd2_row i j _ done row rest Hd). apply IH. intros j' Hj'. apply Hl. right. exact Hj'. }
  rewrite Inv by (intros j Hj; apply in_seq in Hj; lia).
  pose proof (fill_row_aux g n 0 0 [] eq_refl) as H. simpl in H.
  rewrite Nat.add_0_r, app_nil_r in H. rewrite H. reflexivity.
Qed.

Lemma mat_rows_inv (obody : list (list D) -> Z -> list (list D)) (a b : Z) (mA mB : nat) (xa xb : list X) :
  a = 0%Z -> b = Z.of_nat (length xa) -> mA = length xa -> mB = length xb ->
  (forall i done r, i < length xa -> length done = i ->
     obody (done ++ repeat dd (length xb) :: repeat (repeat dd (length xb)) r) (Z.of_nat i)
     = done ++ map (fun j => f (nth i xa d0) (nth j xb d0)) (seq 0 (length xb)) :: repeat (repeat dd (length xb)) r) ->
  fold_left obody (zrange a b) (repeat (repeat dd mB) mA) = cdist_loop f xa xb.
Proof.
  intros -> -> -> -> Hbody. change 0%Z with (Z.of_nat 0). rewrite zrange_nat, fold_left_map_in.
  replace (Z.to_nat (Z.of_nat (length xa)) - 0) with (length xa) by lia.
  set (row0 := repeat dd (length xb)) in *.
  assert (Inv : forall k, k <= length xa ->
     fold_left (fun M i => obody M (Z.of_nat i)) (seq 0 k) (repeat row0 (length xa))
     = map (fun i => map (fun j => f (nth i xa d0) (nth j xb d0)) (seq 0 (length xb))) (seq 0 k)
       ++ repeat row0 (length xa - k)).
  { induction k as [|k IH]; intros Hk.
    - simpl. rewrite Nat.sub_0_r. reflexivity.
    - rewrite seq_S, fold_left_app, IH by lia. simpl fold_left.
      replace (length xa - k) with (S (length xa - S k)) by lia. simpl repeat.
      rewrite Hbody by (try rewrite map_length, seq_length; lia).
      rewrite map_app. simpl. rewrite <- app_assoc. reflexivity. }
  rewrite (Inv _ (le_n _)), Nat.sub_diag. simpl. rewrite app_nil_r.
  unfold cdist_loop. rewrite <- (map_nth_seq (fun a => map (f a) xb) xa d0).
  apply map_ext. intros i. apply (map_nth_seq (f (nth i xa d0)) xb d0).
Qed.

(* ------------------------------------------------------------------ *)
(* the regenerated text                                                 *)
(* ------------------------------------------------------------------ *)

(* bounds and index arithmetic left over by the invariant lemmas *)
Ltac arith := first [reflexivity | lia | (rewrite ?Nat2Z.id; reflexivity) | apply tri_size
                     | (rewrite <- tri_size; f_equal; first [lia | f_equal; lia])].
(* the failure message names the source statement whose obligation no longer holds *)
Tactic Notation "oblig" string(what) := first [arith | fail 1 "regenerated source differs from the layout model at:" what].

Theorem gen_pdist_eq (xs : list X) : gen_pdist f d0 dd xs = pdist_loop f d0 xs.
Proof.
  unfold gen_pdist. cbv zeta.
  match goal with |- (let '(_, _) := ?E in _) = _ =>
    eassert (H : E = (pdist_loop f d0 xs, _)) end.
  { (* the outer loop keeps the invariant ... *)
    apply rows_inv;
      [oblig "pdist: outer range start (0)" | oblig "pdist: outer range stop (m - 1)"
      | oblig "pdist: size of the np.empty vector (m * (m - 1) // 2)" | oblig "pdist: initial counter (k = 0)" |].
    intros i done r Hi. cbv beta iota.
    (* ... because the inner loop fills one row ... *)
    apply fill_range; [oblig "pdist: inner range start (i + 1)" | oblig "pdist: inner range stop (m)" |].
    intros j dm k Hj. cbv beta iota.
    (* ... because one iteration stores f(x_i, x_j) at cell k, then advances k *)
    rewrite ?zupd_nat, ?znth_nat.
    first [ f_equal; arith
          | fail 1 "regenerated source differs from the layout model at: pdist: loop body (dm[k] = metric(strings[i], strings[j]); k += 1)" ]. }
  rewrite H. reflexivity.
Qed.

Theorem gen_pdist_length (xs : list X) :
  length (gen_pdist f d0 dd xs) = length xs * (length xs - 1) / 2.
Proof. rewrite gen_pdist_eq. apply pdist_loop_length. Qed.

Theorem gen_cdist_eq (xa xb : list X) : gen_cdist f d0 dd xa xb = cdist_loop f xa xb.
Proof.
  unfold gen_cdist. cbv zeta.
  apply mat_rows_inv;
    [oblig "cdist: outer range start (0)" | oblig "cdist: outer range stop (mA)"
    | oblig "cdist: rows of np.empty (mA)" | oblig "cdist: columns of np.empty (mB)" |].
  intros i done r Hi Hd. cbv beta.
  eapply mat_fill_row;
    [oblig "cdist: inner range start (0)" | oblig "cdist: inner range stop (mB)" | exact Hd |].
  intros j M Hj. cbv beta.
  rewrite ?zupd2_nat, ?znth_nat.
  first [ reflexivity
        | fail 1 "regenerated source differs from the layout model at: cdist: loop body (dm[i, j] = metric(stringA[i], stringB[j]))" ].
Qed.

End GenDist.

Print Assumptions gen_pdist_eq.
Print Assumptions gen_pdist_length.
Print Assumptions gen_cdist_eq.
