(* C20 - entry points of the executable effect model, one per oracle request.  Definitions only.
   Names are Coq strings in the model; OCaml's own [string] must not be shadowed in the extracted
   program, so every answer is evaluated here by the kernel ([Eval vm_compute]) into code-point lists
   and the extracted oracle serves the evaluated rows. *)
From Coq Require Import List String Ascii NArith Bool Arith.
From PV Require Import model.Effects gen.Gen_c20.
Import ListNotations.
Open Scope list_scope.

Definition wire (s : string) : list N := map N_of_ascii (list_ascii_of_string s).
Definition wires (l : list string) : list (list N) := map wire l.

Definition row : Type :=
  (list N * (bool * bool * bool) * list (list N) * list (list N) * list (list N) * list (list N)
   * list (list N) * list (list N) * list (list N))%type.

(* name, (public, rng, clean), parameters, default objects, mutated parameters, mutated defaults,
   mutated module objects ++ unclassified constructs, undominated global reads, global writes *)
Definition row_of (e : entry) : row :=
  (wire (e_name e), (e_public e, e_rng e, entry_clean e), wires (e_params e), wires (e_defaults e),
   wires (e_mut_params e), wires (e_mut_defaults e), wires (e_mut_globals e ++ e_unknown e),
   wires (rbw [] (e_glob e)), wires (writes (e_glob e))).

(* the locations a call may write according to its summary, as tagged names: kind 0 = caller object
   passed for that parameter, 1 = default object of that parameter, 2 = module global, 3 = NumPy generator *)
Definition may_write_of (e : entry) : list (nat * list N) :=
  (if nilb (e_unknown e) then map (fun p => (0, wire p)) (e_mut_params e) ++ map (fun p => (1, wire p)) (e_mut_defaults e)
   else map (fun p => (0, wire p)) (e_params e) ++ map (fun p => (1, wire p)) (e_defaults e))
  ++ map (fun g => (2, wire g)) (writes (e_glob e) ++ e_mut_globals e)
  ++ (if e_rng e then [(3, wire "numpy.random")] else []).

Definition sel (pub : bool) : table := if pub then public gen_table else gen_table.

Definition c20_rows : list row := Eval vm_compute in map row_of gen_table.
Definition c20_may_write : list (list (nat * list N)) := Eval vm_compute in map may_write_of gen_table.
Definition c20_sizes : nat * nat := Eval vm_compute in (List.length (sel true), List.length (sel false)).
Definition c20_pure : bool * bool := Eval vm_compute in (table_pure (sel true), table_pure (sel false)).
Definition c20_offenders : list (list N) * list (list N) :=
  Eval vm_compute in (wires (offenders (sel true)), wires (offenders (sel false))).
Definition c20_conflicts : list (list N) * list (list N) :=
  Eval vm_compute in (wires (filter (fun g => mem g (allwrites (sel true))) (allrbw (sel true))),
                      wires (filter (fun g => mem g (allwrites (sel false))) (allrbw (sel false)))).

Definition blank_row : row := ([], (false, false, true), [], [], [], [], [], [], []).
Definition pick {A} (pub : bool) (p : A * A) : A := if pub then fst p else snd p.

Definition api_c20_size (pub : bool) : nat := pick pub c20_sizes.
Definition api_c20_entry (i : nat) : row := nth i c20_rows blank_row.
(* the obligation of C20_pure_table, evaluated (so the harness can report WHICH entries break it) *)
Definition api_c20_table_pure (pub : bool) : bool := pick pub c20_pure.
Definition api_c20_offenders (pub : bool) : list (list N) := pick pub c20_offenders.
Definition api_c20_conflicts (pub : bool) : list (list N) := pick pub c20_conflicts.
Definition api_c20_may_write (i : nat) : list (nat * list N) := nth i c20_may_write [].
