(* C09: monomorphic entry points of the TcrLevenshtein model and of its executable specification. Definitions only. *)
From Coq Require Import List NArith Bool Arith.
From PV Require Import lib.Str lib.Condensed gen.Gen_c09 model.TcrMetric.
Import ListNotations.

Definition c09_cs (n : nat) : c09_chain_scope := match n with 0 => Paired | 1 => AlphaOnly | _ => BetaOnly end.
Definition c09_ls (n : nat) : c09_cdr_scope := match n with 0 => AllCdr | _ => Cdr3Only end.
Definition c09_cfg (w : nat * nat * nat) (v : N * N * N * N * N) : cfg :=
  let '(wi, wd, ws) := w in let '(wa, wb, w1, w2, w3) := v in mkcfg wi wd ws wa wb w1 w2 w3.
(* wire row: (label, TRAV, CDR3A, TRBV, CDR3B) *)
Definition c09_row (r : str * str * str * str * str) : str * row :=
  let '(lbl, tv, c3a, bv, c3b) := r in (lbl, mkrow tv c3a bv c3b).
Definition c09_obj (is_frame : bool) (cols : list str) (rows : list (str * str * str * str * str)) : pyobj :=
  if is_frame then Frame cols (map c09_row rows) else NotFrame.
Definition c09_genes_known (tbl : list (str * (str * str))) (x : pyobj) : bool :=
  forallb (fun r => known_gene tbl (trav r) && known_gene tbl (trbv r)) (rows_of x).
Definition c09_wire {T : Type} (d : T) (o : outcome T) : nat * T :=
  match o with Ok v => (0, v) | ValueErr => (1, d) | OtherErr => (2, d) end.

(* model of calc_cdist_matrix: (0, matrix) | (1, _) ValueError | (2, _) another error | (3, _) allele not in the table passed *)
Definition api_c09_cdist (cs ls : nat) (w : nat * nat * nat) (v : N * N * N * N * N) (tbl : list (str * (str * str)))
    (fa : bool) (ca : list str) (ra : list (str * str * str * str * str))
    (fb : bool) (cb : list str) (rb : list (str * str * str * str * str)) : nat * list (list N) :=
  let a := c09_obj fa ca ra in let b := c09_obj fb cb rb in
  if c09_genes_known tbl a && c09_genes_known tbl b
  then c09_wire [] (calc_cdist_matrix (assoc_genes tbl) (c09_cfg w v) (c09_cs cs) (c09_ls ls) a b)
  else (3, []).
Definition api_c09_pdist (cs ls : nat) (w : nat * nat * nat) (v : N * N * N * N * N) (tbl : list (str * (str * str)))
    (fx : bool) (cx : list str) (rx : list (str * str * str * str * str)) : nat * list N :=
  let x := c09_obj fx cx rx in
  if c09_genes_known tbl x
  then c09_wire [] (calc_pdist_vector (assoc_genes tbl) (c09_cfg w v) (c09_cs cs) (c09_ls ls) x)
  else (3, []).
(* executable specification on the rows of accepted tables *)
Definition api_c09_spec_cdist (cs ls : nat) (w : nat * nat * nat) (v : N * N * N * N * N) (tbl : list (str * (str * str)))
    (ra rb : list (str * str * str * str * str)) : list (list N) :=
  spec_cdist (assoc_genes tbl) (c09_cfg w v) (c09_cs cs) (c09_ls ls) (map (fun r => snd (c09_row r)) ra) (map (fun r => snd (c09_row r)) rb).
Definition api_c09_spec_pdist (cs ls : nat) (w : nat * nat * nat) (v : N * N * N * N * N) (tbl : list (str * (str * str)))
    (rx : list (str * str * str * str * str)) : list N :=
  spec_pdist (assoc_genes tbl) (c09_cfg w v) (c09_cs cs) (c09_ls ls) (map (fun r => snd (c09_row r)) rx).
(* (model decision, specification decision) of "is a TCR table" *)
Definition api_c09_is_table (is_frame : bool) (cols : list str) : bool * bool :=
  (is_tcr_table (c09_obj is_frame cols []), spec_is_table (c09_obj is_frame cols [])).
(* scope of a public class by name, from the generated class table: (chain scope code, cdr scope code) *)
Definition api_c09_class_scope (name : str) : option (nat * nat) :=
  match find (fun kv => str_eqb (fst kv) name) gen_c09_classes with
  | Some (_, (cs, ls)) => Some (match cs with Paired => 0 | AlphaOnly => 1 | BetaOnly => 2 end,
                                match ls with AllCdr => 0 | Cdr3Only => 1 end)
  | None => None
  end.
