(* C13: monomorphic entry points of the grouped / conditional / entropy model, one per oracle request.
   Feature values are tokens (N; the harness relabels values injectively, C02_relabel_invariant) or strings. *)
From Coq Require Import List NArith ZArith QArith Bool Arith.
From PV Require Import lib.Val lib.Str lib.Condensed gen.Gen_stats gen.Gen_c13 model.Pc model.PcDelta model.Grouped.
Import ListNotations.
Close Scope Q_scope.

Definition ored (o : option Q) : option Q := option_map Qred o.
Definition olred (o : option (list Q)) : option (list Q) := option_map (map Qred) o.

Definition api_c13_group_keys (t : list (key * N)) : list key := group_keys t.
Definition api_c13_conditional (w : option (list Q)) (t : list (key * N)) : nat * Q := val_wire (pc_conditional N.eq_dec w t).
Definition api_c13_grouped_cross (t : list (key * N)) : list (list (option Q)) := map (map ored) (pc_grouped_cross N.eq_dec t).
Definition api_c13_pcdelta_grouped (edges : list Q) (norm : bool) (t : list (key * str)) : list (key * option (list Q)) :=
  map (fun r => (fst r, olred (snd r))) (pcdelta_grouped edges norm t).
Definition api_c13_pcdelta_grouped0 (t : list (key * str)) : list (key * option Q) :=
  map (fun r => (fst r, ored (snd r))) (pcdelta_grouped0 t).
Definition api_c13_cross_index (t : list (key * str)) : list (key * key) := cross_index t.
Definition api_c13_pcdelta_cross_condensed (edges : list Q) (norm : bool) (t : list (key * str)) : list (option (list Q)) :=
  map olred (pcdelta_cross_condensed edges norm t).
Definition api_c13_pcdelta_cross0_condensed (t : list (key * str)) : list (option Q) := map ored (pcdelta_cross0_condensed t).
Definition api_c13_pcdelta_cross0_square (t : list (key * str)) : list (list (option Q)) := map (map ored) (pcdelta_cross0_square t).
(* the coincidence probability whose logarithm renyi2_entropy must return ACCORDING TO THE STATEMENT (specification dispatch:
   pc / pc_joint without `by`, pc_conditional with it). The dispatch regenerated from entropy.py is proved equal to it
   (C13_entropy_composition) and reported by api_c13_dispatch; using the specification here makes a changed dispatch in the
   source show up as a concrete failing input and not only as a broken proof. *)
Definition api_c13_renyi2_arg (by_falsy is_list : bool) (w : option (list Q)) (t : list (key * N)) : nat * Q :=
  val_wire (renyi2_arg N.eq_dec (renyi2_dispatch_spec by_falsy is_list) w t).
(* stdrenyi2_entropy = sqrt(var) / (pc * ln base): (var defined, var, pc), var = the regenerated varpc_n on the multiplicities *)
Definition api_c13_std_parts (l : list N) : bool * Q * Q :=
  let m := map qn (mults N.eq_dec l) in (gen_varpc_n_defined m, Qred (gen_varpc_n_Q m), Qred (pcq N.eq_dec l)).
Definition api_c13_dispatch (by_falsy is_list : bool) : nat * (nat * nat) * (nat * nat) :=
  (gen_renyi2_dispatch by_falsy is_list, gen_stdrenyi2_dispatch is_list, (gen_conditional_dispatch is_list, gen_grouped_cross_dispatch is_list)).
