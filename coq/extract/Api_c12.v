(* C12 (extension): entry points of the modelled nndist_hamming / _isdist2_hamming /
   _isdist3_hamming loops, on the regenerated amino-acid alphabet.  Definitions only. *)
From Coq Require Import List NArith Bool Arith.
From PV Require Import lib.Edits lib.Str model.Nbrs model.Nndist gen.Gen_consts.
Import ListNotations.

Definition api_c12_nndist (maxdist : nat) (x : str) (ref : list str) : option nat :=
  nndist_ham gen_aminoacids maxdist x ref.
Definition api_c12_isdist2 (x : str) (ref : list str) : bool := isdist2_ham gen_aminoacids x ref.
Definition api_c12_isdist3 (x : str) (ref : list str) : bool := isdist3_ham gen_aminoacids x ref.

(* C12 (source tie): the functions regenerated from the source text of pyrepseq/distance.py (gen/Gen_c12.v), so that the
   harness can run them too; proofs/GenNbrsP.v proves them equal to the models above. *)
From PV Require Import gen.Gen_c12.
Definition api_c12g_lev_nbrs (al x : str) : list str := gen_levenshtein_neighbors al x.
Definition api_c12g_ham_nbrs (al : str) (pos : list nat) (x : str) : list str := gen_hamming_neighbors al pos x.
Definition api_c12g_ham_nbrs_default (al x : str) : list str := gen_hamming_neighbors_default al x.
Definition api_c12g_isdist2 (x : str) (ref : list str) : bool := gen_isdist2 gen_aminoacids x ref.
Definition api_c12g_isdist3 (x : str) (ref : list str) : bool := gen_isdist3 gen_aminoacids x ref.
