(* C12 (extension): entry points of the modelled nndist_hamming / _isdist2_hamming /
   _isdist3_hamming loops, on the regenerated amino-acid alphabet.  Definitions only. *)
From Coq Require Import List NArith Bool Arith.
From PV Require Import lib.Edits lib.Str model.Nbrs model.Nndist gen.Gen_consts.
Import ListNotations.

Definition api_c12_nndist (maxdist : nat) (x : str) (ref : list str) : option nat :=
  nndist_ham gen_aminoacids maxdist x ref.
Definition api_c12_isdist2 (x : str) (ref : list str) : bool := isdist2_ham gen_aminoacids x ref.
Definition api_c12_isdist3 (x : str) (ref : list str) : bool := isdist3_ham gen_aminoacids x ref.
