(* C17: monomorphic entry points of the executable model (resampling, power-law utilities). Definitions only. *)
From Coq Require Import List NArith ZArith QArith Bool Arith.
From PV Require Import model.Resample model.Powerlaw gen.Gen_c17.
Import ListNotations.
Close Scope Q_scope.
Open Scope nat_scope.

(* subsample: model under an explicit draw, executable spec on an output, canonical draw behind an output *)
Definition api_c17_subsample (counts S : list nat) : list (nat * nat) := subsample counts S.
Definition api_c17_subsample_ok (counts : list nat) (n : nat) (r : list (nat * nat)) : bool := subsample_okb counts n r.
Definition api_c17_canon_draw (counts : list nat) (r : list (nat * nat)) : list nat := canon_draw counts r.
Definition api_c17_valid_draw (N n : nat) (S : list nat) : bool := valid_drawb N n S.
Definition api_c17_total (counts : list nat) : nat := list_sum counts.

(* downsample on coded elements *)
Definition api_c17_downsample (xs : list N) (maxseqs : option nat) (S : list nat) : list N := downsample 0%N xs maxseqs S.
Definition api_c17_downsample_ok (xs : list N) (maxseqs : option nat) (out : list N) : bool := downsample_okb N.eq_dec xs maxseqs out.
Definition api_c17_recover_draw (xs out : list N) : option (list nat) := recover_draw N.eq_dec xs out [].

(* uniform subset: (#n-subsets of N items that contain item 0, #n-subsets), by enumeration *)
Definition api_c17_inclusion (N n : nat) : (nat * nat) :=
  let all := subsets n (seq 0 N) in
  (length (filter (fun s => if in_dec Nat.eq_dec 0 s then true else false) all), length all).

(* powerlaw_mle_alpha closed forms; method 0 = simple, 1 = continuitycorrection; ln from a table.
   result: (defined, every ln argument was on the table, generated value, documented value) *)
Definition api_c17_mle (method : nat) (tbl : list (Q * Q)) (c : list Q) (cmin : Q) : (bool * bool * Q * Q) :=
  let l0 := lookup_ln tbl 0%Q in
  let l1 := lookup_ln tbl 1%Q in
  match method with
  | 0 => (gen_mle_simple_defined l0 c cmin, Qeq_bool (gen_mle_simple l0 c cmin) (gen_mle_simple l1 c cmin),
          Qred (gen_mle_simple l0 c cmin), Qred (mle_simple_doc l0 c cmin))
  | _ => (gen_mle_continuitycorrection_defined l0 c cmin,
          Qeq_bool (gen_mle_continuitycorrection l0 c cmin) (gen_mle_continuitycorrection l1 c cmin),
          Qred (gen_mle_continuitycorrection l0 c cmin), Qred (mle_cc_doc l0 c cmin))
  end.
(* the arguments of ln in the documented forms, over the counts >= cmin *)
Definition api_c17_mle_lnargs (method : nat) (c : list Q) (cmin : Q) : list Q :=
  map (fun x => Qred (x / (match method with O => cmin | _ => cmin - (1 # 2) end))%Q) (keep_ge cmin c).

Definition api_c17_powerlaw_ok (size : N) (xmin : Q) (vals : list Q) : bool := powerlaw_okb (N.to_nat size) xmin vals.
Definition api_c17_exact_ok (lo hi a ll_a tol : Q) (grid : list Q) : bool := exact_okb lo hi a ll_a tol grid.
