(* Monomorphic entry points of the executable model, one per oracle request.
   Definitions only. *)
From Coq Require Import List NArith ZArith QArith Bool Arith.
From PV Require Import lib.Edits lib.LevDP lib.Str.
Import ListNotations.

(* keeps every number type in the extracted file so the driver prelude compiles *)
Definition api_types (a : nat) (b : N) (c : Z) (d : Q) : (nat * N * Z * Q) := (a, b, c, d).

Definition api_lev (a b : str) : nat := slev_x a b.
Definition api_wlev (wi wd ws : nat) (a b : str) : nat := wlev_dp N.eq_dec wi wd ws a b.
Definition api_ham (a b : str) : option nat := sham a b.
Definition api_dels (k : nat) (a : str) : list str := dels k a.

(* ---- C16 ---- *)
From PV Require Import lib.Val gen.Gen_stats model.Richness.
Definition api_gen_chao1 (f : list Q) := val_wire (gen_chao1 f).
Definition api_gen_var_chao1 (f : list Q) := val_wire (gen_var_chao1 f).
Definition api_gen_chao2 (f : list Q) (m : Q) := val_wire (gen_chao2 f m).
Definition api_gen_var_chao2 (f : list Q) (m : Q) := val_wire (gen_var_chao2 f m).
Definition api_spec_chao1 (f : list Q) := val_wire (V (spec_chao1 f)).
Definition api_spec_chao2 (f : list Q) := val_wire (ov (spec_chao2 f)).
Definition api_spec_var_chao (f : list Q) := val_wire (ov (spec_var_chao f)).
Definition api_jaccard (A B : list (option N)) : option Q := option_map Qred (jaccard A B).
Definition api_overlap (A B : list (option N)) : nat := overlap A B.
Definition api_overlap_coefficient (A B : list (option N)) := val_wire (overlap_coefficient A B).
