(* Monomorphic entry points of the executable model, one per oracle request.
   Definitions only. *)
From Coq Require Import List NArith ZArith QArith Qround Bool Arith.
From PV Require Import lib.Edits lib.LevDP lib.Str.
Import ListNotations.

(* keeps every number type in the extracted file so the driver prelude compiles *)
Definition api_types (a : nat) (b : N) (c : Z) (d : Q) : (nat * N * Z * Q) := (a, b, c, d).

Definition api_lev (a b : str) : nat := slev_x a b.
Definition api_wlev (wi wd ws : nat) (a b : str) : nat := wlev_dp N.eq_dec wi wd ws a b.
Definition api_ham (a b : str) : option nat := sham a b.
Definition api_dels (k : nat) (a : str) : list str := dels k a.

(* ---- C16 ---- *)
From PV Require Import lib.Val gen.Gen_stats model.Richness.
Definition api_gen_chao1 (f : list Q) := val_wire (gen_chao1 f).
Definition api_gen_var_chao1 (f : list Q) := val_wire (gen_var_chao1 f).
Definition api_gen_chao2 (f : list Q) (m : Q) := val_wire (gen_chao2 f m).
Definition api_gen_var_chao2 (f : list Q) (m : Q) := val_wire (gen_var_chao2 f m).
Definition api_spec_chao1 (f : list Q) := val_wire (V (spec_chao1 f)).
Definition api_spec_chao2 (f : list Q) := val_wire (ov (spec_chao2 f)).
Definition api_spec_var_chao (f : list Q) := val_wire (ov (spec_var_chao f)).
Definition api_jaccard (A B : list (option N)) : option Q := option_map Qred (jaccard A B).
Definition api_overlap (A B : list (option N)) : nat := overlap A B.
Definition api_overlap_coefficient (A B : list (option N)) := val_wire (overlap_coefficient A B).

(* ---- C01 / C03 / C07 / C14: symmetric-delete search ---- *)
From PV Require Import model.Symdel.
Definition redq (l : list (nat * nat * Q)) : list (nat * nat * Q) := map (fun t => (fst t, Qred (snd t))) l.
Definition api_comb_gen (k : nat) (s : str) : list str := comb_gen k s.
Definition api_symdel_self_lev (k : nat) (seqs : list str) := symdel_self Nat.eq_dec (keep_lev k) k seqs.
Definition api_symdel_self_ham (k : nat) (seqs : list str) := symdel_self Nat.eq_dec (keep_ham k) k seqs.
Definition api_symdel_self_custom (which k : nat) (maxc : option Q) (seqs : list str) := redq (symdel_self Q_eq_dec (keep_custom (custom_dist which) k maxc) k seqs).
Definition api_symdel_lookup_lev (k : nat) (refs queries : list str) := symdel_lookup (keep_lev k) k refs queries.
Definition api_symdel_lookup_ham (k : nat) (refs queries : list str) := symdel_lookup (keep_ham k) k refs queries.
Definition api_symdel_lookup_custom (which k : nat) (maxc : option Q) (refs queries : list str) := redq (symdel_lookup (keep_custom (custom_dist which) k maxc) k refs queries).
Definition api_brute_self_lev (k : nat) (seqs : list str) := all_pairs_self (keep_lev k) seqs.
Definition api_brute_self_ham (k : nat) (seqs : list str) := all_pairs_self (keep_ham k) seqs.
Definition api_brute_self_custom (which k : nat) (maxc : option Q) (seqs : list str) := redq (all_pairs_self (keep_custom (custom_dist which) k maxc) seqs).
Definition api_brute_cross_lev (k : nat) (refs queries : list str) := all_pairs_cross (keep_lev k) refs queries.
Definition api_brute_cross_ham (k : nat) (refs queries : list str) := all_pairs_cross (keep_ham k) refs queries.
Definition api_brute_cross_custom (which k : nat) (maxc : option Q) (refs queries : list str) := redq (all_pairs_cross (keep_custom (custom_dist which) k maxc) refs queries).
Definition api_custom_dist (which : nat) (a b : str) : Q := Qred (custom_dist which a b).

(* ---- C02 / C06: generated pc_n, varpc_n over Q ---- *)
Definition api_gen_pc_n (n : list Q) : (bool * Q) := (gen_pc_n_defined n, Qred (gen_pc_n_Q n)).
Definition api_gen_varpc_n (n : list Q) : (bool * Q) := (gen_varpc_n_defined n, Qred (gen_varpc_n_Q n)).

(* ---- engines (C03, C04, C07, C11, C14) ---- *)
From PV Require Import model.Nbrs model.Kdtree model.Engines.
Definition idn (d : nat) : nat := d.
Definition qkey2 (q : Q) : nat := Z.to_nat (Qfloor (q * 2)).   (* order key for custom distances that are multiples of 1/2 *)
Definition api_kdtree_lev (k comp : nat) (limit : option nat) (seqs : list str) := kdtree_model (keep_lev k) idn k comp limit seqs.
Definition api_kdtree_ham (k comp : nat) (limit : option nat) (seqs : list str) := kdtree_hamming (keep_ham k) idn k comp limit seqs.
Definition api_kdtree_custom (which k : nat) (maxc : option Q) (comp : nat) (limit : option nat) (seqs : list str) :=
  redq (kdtree_model (keep_custom (custom_dist which) k maxc) qkey2 k comp limit seqs).
Definition api_hash_lev (k : nat) (seqs : list str) := hash_model val_lev (lev_nbrs aa_letters) k seqs.
Definition api_hash_ham (k : nat) (seqs : list str) := hash_model val_ham (ham_nbrs aa_letters) k seqs.
Definition api_hash_custom (which k : nat) (maxc : option Q) (seqs : list str) :=
  redq (hash_model (val_custom (custom_dist which) maxc) (lev_nbrs aa_letters) k seqs).
Definition api_lookupdb_lev (k : nat) (refs queries : list str) := lookupdb_lookup val_lev (lev_nbrs aa_letters) k false refs queries.
Definition api_lookupdb_ham (k : nat) (refs queries : list str) := lookupdb_lookup val_ham (ham_nbrs aa_letters) k false refs queries.
Definition api_encode (comp : nat) (s : str) : list Z := encode comp s.
(* ---- C12 ---- *)
Definition api_lev_nbrs (al : list N) (x : str) : list str := lev_nbrs al x.
Definition api_ham_nbrs_pos (al : list N) (pos : list nat) (x : str) : list str := ham_nbrs_pos al pos x.
Definition api_next_nearest (ham : bool) (al : list N) (m : nat) (x : str) : list str :=
  next_nearest (if ham then ham_nbrs al else lev_nbrs al) m x.
Definition api_find_pairs (ham : bool) (al : list N) (seqs : list str) : list (str * str) :=
  find_pairs (if ham then ham_nbrs al else lev_nbrs al) seqs.
Definition api_neighbor_numbers (ham : bool) (al : list N) (seqs ref : list str) : list nat :=
  neighbor_numbers (if ham then ham_nbrs al else lev_nbrs al) seqs ref.
Definition api_isdist1 (ham : bool) (al : list N) (x : str) (ref : list str) : bool :=
  isdist1 (if ham then ham_nbrs al else lev_nbrs al) x ref.
Definition api_ball (ham : bool) (al : list N) (k : nat) (x : str) : list str :=
  ball (if ham then ham_nbrs al else lev_nbrs al) k x.
(* nearest Hamming distance to an equal-length reference, capped at maxdist (specification-level) *)
Definition api_nndist_ham (maxdist : nat) (x : str) (ref : list str) : nat :=
  fold_left (fun m r => match sham x r with Some h => Nat.min m h | None => m end) ref maxdist.

(* ---- C14: nearest_neighbor_tcrdist glue ---- *)
From PV Require Import model.Tcrdist gen.Gen_data.
Definition mk_tcr (r : str * str * str * str) : tcr :=
  let '(va, ca, vb, cb) := r in Build_tcr va ca vb cb.
Definition api_tcrdist_nn (chain k : nat) (trimmed : bool) (maxt : Z) (ntrim ctrim w gap : nat)
           (rows : list (str * str * str * str)) : list (nat * nat * Z) :=
  tcrdist_nn vdists_alpha vdists_beta (cdr3_standin ntrim ctrim w gap) chain k
             (if trimmed then Some (ntrim, ctrim) else None) maxt (map mk_tcr rows).
Definition api_vtable_labels (alpha : bool) : list str := fst (fst (if alpha then vdists_alpha else vdists_beta)).

(* ---- C10 ---- *)
From PV Require Import model.Output.
Definition api_coo_dense (nrows ncols : nat) (trip : list (nat * nat * Z)) : list (list Z) := coo_dense nrows ncols trip.

(* ---- C02 ---- *)
From PV Require Import model.Pc.
Definition api_pc1 (l : list N) : (nat * nat) := (pc_num N.eq_dec l, pc_den l).
Definition api_pc2 (l1 l2 : list N) : (nat * nat) := (pc2_num N.eq_dec l1 l2, pc2_den l1 l2).
Definition api_mults (l : list N) : list nat := mults N.eq_dec l.

(* ---- C05 / C08 ---- *)
From PV Require Import lib.Condensed.
Definition api_cdist_wlev (wi wd ws : nat) (xa xb : list str) : list (list nat) := cdist_loop (wlev_dp N.eq_dec wi wd ws) xa xb.
Definition api_pdist_wlev (wi wd ws : nat) (xs : list str) : list nat := pdist_loop (wlev_dp N.eq_dec wi wd ws) [] xs.
Definition api_cidx (m i j : nat) : nat := cidx m i j.

(* ---- C15 ---- *)
From PV Require Import model.Cluster.
Definition api_components (n : nat) (E : list (nat * nat)) : list nat := components n E.
Definition api_graph_cc (n : nat) (E : list (nat * nat)) : list (nat * nat) := graph_cc n E.
Definition api_refines (P Q : list nat) : bool := refines P Q.
