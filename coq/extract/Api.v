(* Monomorphic entry points of the executable model, one per oracle request.
   Definitions only. *)
From Coq Require Import List NArith ZArith QArith Bool Arith.
From PV Require Import lib.Edits lib.LevDP lib.Str.
Import ListNotations.

(* keeps every number type in the extracted file so the driver prelude compiles *)
Definition api_types (a : nat) (b : N) (c : Z) (d : Q) : (nat * N * Z * Q) := (a, b, c, d).

Definition api_lev (a b : str) : nat := slev_x a b.
Definition api_wlev (wi wd ws : nat) (a b : str) : nat := wlev_dp N.eq_dec wi wd ws a b.
Definition api_ham (a b : str) : option nat := sham a b.
Definition api_dels (k : nat) (a : str) : list str := dels k a.

(* ---- C16 ---- *)
From PV Require Import lib.Val gen.Gen_stats model.Richness.
Definition api_gen_chao1 (f : list Q) := val_wire (gen_chao1 f).
Definition api_gen_var_chao1 (f : list Q) := val_wire (gen_var_chao1 f).
Definition api_gen_chao2 (f : list Q) (m : Q) := val_wire (gen_chao2 f m).
Definition api_gen_var_chao2 (f : list Q) (m : Q) := val_wire (gen_var_chao2 f m).
Definition api_spec_chao1 (f : list Q) := val_wire (V (spec_chao1 f)).
Definition api_spec_chao2 (f : list Q) := val_wire (ov (spec_chao2 f)).
Definition api_spec_var_chao (f : list Q) := val_wire (ov (spec_var_chao f)).
Definition api_jaccard (A B : list (option N)) : option Q := option_map Qred (jaccard A B).
Definition api_overlap (A B : list (option N)) : nat := overlap A B.
Definition api_overlap_coefficient (A B : list (option N)) := val_wire (overlap_coefficient A B).

(* ---- C01 / C03 / C07 / C14: symmetric-delete search ---- *)
From PV Require Import model.Symdel.
Definition redq (l : list (nat * nat * Q)) : list (nat * nat * Q) := map (fun t => (fst t, Qred (snd t))) l.
Definition api_comb_gen (k : nat) (s : str) : list str := comb_gen k s.
Definition api_symdel_self_lev (k : nat) (seqs : list str) := symdel_self Nat.eq_dec (keep_lev k) k seqs.
Definition api_symdel_self_ham (k : nat) (seqs : list str) := symdel_self Nat.eq_dec (keep_ham k) k seqs.
Definition api_symdel_self_custom (which k : nat) (maxc : option Q) (seqs : list str) := redq (symdel_self Q_eq_dec (keep_custom (custom_dist which) k maxc) k seqs).
Definition api_symdel_lookup_lev (k : nat) (refs queries : list str) := symdel_lookup (keep_lev k) k refs queries.
Definition api_symdel_lookup_ham (k : nat) (refs queries : list str) := symdel_lookup (keep_ham k) k refs queries.
Definition api_symdel_lookup_custom (which k : nat) (maxc : option Q) (refs queries : list str) := redq (symdel_lookup (keep_custom (custom_dist which) k maxc) k refs queries).
Definition api_brute_self_lev (k : nat) (seqs : list str) := all_pairs_self (keep_lev k) seqs.
Definition api_brute_self_ham (k : nat) (seqs : list str) := all_pairs_self (keep_ham k) seqs.
Definition api_brute_self_custom (which k : nat) (maxc : option Q) (seqs : list str) := redq (all_pairs_self (keep_custom (custom_dist which) k maxc) seqs).
Definition api_brute_cross_lev (k : nat) (refs queries : list str) := all_pairs_cross (keep_lev k) refs queries.
Definition api_brute_cross_ham (k : nat) (refs queries : list str) := all_pairs_cross (keep_ham k) refs queries.
Definition api_brute_cross_custom (which k : nat) (maxc : option Q) (refs queries : list str) := redq (all_pairs_cross (keep_custom (custom_dist which) k maxc) refs queries).
Definition api_custom_dist (which : nat) (a b : str) : Q := Qred (custom_dist which a b).

(* ---- C02 / C06: generated pc_n, varpc_n over Q ---- *)
Definition api_gen_pc_n (n : list Q) : (bool * Q) := (gen_pc_n_defined n, Qred (gen_pc_n_Q n)).
Definition api_gen_varpc_n (n : list Q) : (bool * Q) := (gen_varpc_n_defined n, Qred (gen_varpc_n_Q n)).
