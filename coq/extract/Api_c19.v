(* C19: monomorphic entry points of the executable model (one per oracle request). Definitions only. *)
From Coq Require Import List NArith ZArith QArith Bool Arith.
From PV Require Import lib.Str model.Summaries.
Import ListNotations.

Definition api_c19_regex (seqs : list str) : str := render (regex_of seqs).
Definition api_c19_regex_matches (seqs tests : list str) : list bool := map (matchesb (regex_of seqs)) tests.
Definition api_c19_consensus (seqs : list str) : str := consensus seqs.
Definition api_c19_consensus_ok (seqs : list str) (out : str) : bool := consensus_ok seqs out.
Definition api_c19_counts (seqs : list str) : (str * list (list nat)) := (alphabet seqs, count_matrix seqs).
Definition api_c19_rank (normx normy : bool) (scalex scaley : Q) (data : list (option Q)) : option (list Q * list Q) :=
  option_map (fun xy => (map Qred (fst xy), map Qred (snd xy))) (rank_xy normx normy scalex scaley data).
Definition api_c19_frequent (min_count : option nat) (labels : list N) : list N := frequent min_count labels.
Definition api_c19_colour_slots (min_count : option nat) (period : nat) (order labels : list N) : option (list (option nat)) :=
  colour_slots min_count period order labels.
Definition api_c19_discrete (xs ys : list Z) : list (Z * Z * nat) := discrete_points xs ys.
Definition api_c19_discrete_sorted (xs ys : list Z) : list (Z * Z * nat) := discrete_sorted xs ys.
Definition api_c19_clustermap (alpha beta : list str) (order : list nat) : (list nat * list (list nat)) :=
  (summed_distances alpha beta, clustermap_matrix alpha beta order).
Definition api_c19_single (chain : list str) (order : list nat) : (list nat * list (list nat)) :=
  (pdist_lev chain, clustermap_matrix chain chain order).
