(* C18: monomorphic entry points of the executable model, one per oracle request. Definitions only.
   A Python object crosses the wire as the pre-order token list of its tree:
   (tag, number, text) with tag 0 str | 1 bytes | 2 None | 3 NaN | 4 pd.NA | 5 int | 6 float | 7 bool |
   8 list | 9 tuple | 10 set | 11 frozenset | 12 dict (number = pairs; children k1 v1 k2 v2 ...) |
   13 generator | 14 opaque; containers carry their arity in `number`. *)
From Coq Require Import List NArith ZArith QArith Bool Arith.
From PV Require Import lib.PyObj gen.Gen_consts gen.Gen_c18 model.Clean.
Import ListNotations.
Close Scope Q_scope.
Open Scope nat_scope.

Definition tok := (nat * Q * list N)%type.
Definition arity (q : Q) : nat := Z.to_nat (Qnum q).

Fixpoint pairup (l : list pyobj) : list (pyobj * pyobj) :=
  match l with k :: v :: r => (k, v) :: pairup r | _ => [] end.

Fixpoint parse (fuel : nat) (toks : list tok) : option (pyobj * list tok) :=
  match fuel with
  | O => None
  | S fu =>
    match toks with
    | [] => None
    | (tag, q, s) :: rest =>
      let many (n : nat) (k : list pyobj -> pyobj) :=
        match parse_n fu n rest with Some (l, r) => Some (k l, r) | None => None end in
      match tag with
      | 0 => Some (PStr s, rest)
      | 1 => Some (PBytes s, rest)
      | 2 => Some (PNone, rest)
      | 3 => Some (PNaN, rest)
      | 4 => Some (PNA, rest)
      | 5 => Some (PInt (Qnum q), rest)
      | 6 => Some (PFloat q, rest)
      | 7 => Some (PBool (negb (Z.eqb (Qnum q) 0)), rest)
      | 8 => many (arity q) PList
      | 9 => many (arity q) PTuple
      | 10 => many (arity q) (PSet false)
      | 11 => many (arity q) (PSet true)
      | 12 => many (2 * arity q) (fun l => PDict (pairup l))
      | 13 => many (arity q) PGen
      | 14 => Some (POpaque, rest)
      | _ => None
      end
    end
  end
with parse_n (fuel : nat) (n : nat) (toks : list tok) : option (list pyobj * list tok) :=
  match fuel with
  | O => None
  | S fu =>
    match n with
    | O => Some ([], toks)
    | S n' =>
      match parse fu toks with
      | Some (o, r) => match parse_n fu n' r with Some (l, r') => Some (o :: l, r') | None => None end
      | None => None
      end
    end
  end.

Definition decode (toks : list tok) : option pyobj :=
  match parse (2 * length toks + 4) toks with Some (o, []) => Some o | _ => None end.

(* 0 False | 1 True | 2 TypeError | 3 IndexError | 4 KeyError | 9 undecodable request *)
Definition code (r : res bool) : nat :=
  match r with
  | Ok false => 0 | Ok true => 1
  | Raise TypeError => 2 | Raise IndexError => 3 | Raise KeyError => 4
  end.
Definition api_c18_isvalidaa (toks : list tok) : nat :=
  match decode toks with Some o => code (isvalidaa gen_c18_facts o) | None => 9 end.
Definition api_c18_isvalidcdr3 (toks : list tok) : nat :=
  match decode toks with Some o => code (isvalidcdr3 gen_c18_facts o) | None => 9 end.
(* the model of the tree before the repair (kept for the refutation record) *)
Definition api_c18_isvalidcdr3_original (toks : list tok) : nat :=
  match decode toks with Some o => code (isvalidcdr3 original_facts o) | None => 9 end.
(* executable specification on strings *)
Definition api_c18_aa_spec (s : list N) : bool := aa_spec s.
Definition api_c18_cdr3_spec (s : list N) : bool := cdr3_spec s.

(* standardize_dataframe: the per-cell standardiser is handed over as a finite table (kind, cell text) -> result,
   built by the harness from direct tidytcells calls under the options of the case *)
Definition lookup_f (tab : list (nat * list N * option (list N))) (k : nat) (_ : unit) (s : list N) : option (list N) :=
  match find (fun e => Nat.eqb (fst (fst e)) k && codes_eqb (snd (fst e)) s) tab with
  | Some e => snd e
  | None => None
  end.
Definition api_c18_standardize (mapper : list (list N * list N)) (flag : bool)
    (tab : list (nat * list N * option (list N))) (index : list (list N))
    (cols : list (list N * list (option (list N)))) : (list (list N) * list (list N * list (option (list N)))) :=
  standardize unit (lookup_f tab) gen_c18_facts mapper flag tt (index, cols).
Definition api_c18_std_columns (_ : bool) : list (list N * nat) := std_cols gen_c18_facts.

Definition api_c18_multimerge (on_index : bool) (sufs : list (list N)) (outer : bool)
    (ts : list (list (list N) * list (list N * list (option (list N)))))
    : (nat * list (list N) * list (list N * list (option (list N)))) :=
  match multimerge gen_c18_facts on_index sufs outer ts with
  | Ok r => (0, kcols r, krows r)
  | Raise TypeError => (2, [], [])
  | Raise IndexError => (3, [], [])
  | Raise KeyError => (4, [], [])
  end.

(* the many-to-many model (keys may repeat inside a table); rows come key group by key group, the harness compares
   them as a multiset.  On unique keys it equals api_c18_multimerge (C18_merge_m_unique). *)
Definition api_c18_multimerge_m (on_index : bool) (sufs : list (list N)) (outer : bool)
    (ts : list (list (list N) * list (list N * list (option (list N)))))
    : (nat * list (list N) * list (list N * list (option (list N)))) :=
  match multimerge_m gen_c18_facts on_index sufs outer ts with
  | Ok r => (0, kcols r, krows r)
  | Raise TypeError => (2, [], [])
  | Raise IndexError => (3, [], [])
  | Raise KeyError => (4, [], [])
  end.
