(* C01/C03/C07/C14: entry point of the deletion-variant generator regenerated from nn._comb_gen
   (coq/gen/Gen_c01.v), so a harness can run today's text side by side with _comb_gen. Definitions only. *)
From Coq Require Import List NArith.
From PV Require Import lib.Str model.Symdel gen.Gen_c01.
Import ListNotations.

(* the set _comb_gen(s, k) returns, duplicates removed (order is not meaningful) *)
Definition api_c01_gen_comb_gen (k : nat) (s : str) : list str := nodups (gen_comb_gen s k).
