(* C05: monomorphic entry points of the pcDelta model, one per oracle request. Definitions only. *)
From Coq Require Import List NArith ZArith QArith Bool Arith.
From PV Require Import lib.Str lib.Val model.Pc model.Resample model.PcDelta gen.Gen_c05 gen.Gen_data.
Import ListNotations.

Definition c05_red (l : list (option Q)) : list (option Q) := map (option_map Qred) l.
Definition c05_bins (b : option (list Q)) : bins_arg :=
  match b with None => BinsNone | Some e => BinsEdges e end.

(* pcDelta(seqs, seqs2, metric, bins, normalize, pseudocount) with bins <> 0, maxseqs=None *)
Definition api_c05_pcdelta (kind wi wd ws : nat) (xs : list row) (ys : option (list row))
    (bins : option (list Q)) (norm : bool) (c : Q) : list (option Q) :=
  match pcdelta row_eq_dec (row_metric kind wi wd ws) row0 xs ys (c05_bins bins) norm c None [] [] with
  | OutVec v => c05_red v
  | OutPc _ _ => []
  end.
(* the same with an explicit draw of positions for maxseqs *)
Definition api_c05_pcdelta_draw (kind wi wd ws : nat) (xs : list row) (ys : option (list row))
    (bins : option (list Q)) (norm : bool) (c : Q) (maxseqs : option nat) (S1 S2 : list nat) : list (option Q) :=
  match pcdelta row_eq_dec (row_metric kind wi wd ws) row0 xs ys (c05_bins bins) norm c maxseqs S1 S2 with
  | OutVec v => c05_red v
  | OutPc _ _ => []
  end.
(* bins = 0 *)
Definition api_c05_bins0 (xs : list row) (ys : option (list row)) : (nat * nat) :=
  match pcdelta row_eq_dec (row_metric 0 1 1 1) row0 xs ys BinsZero true 0 None [] [] with
  | OutPc n d => (n, d)
  | OutVec _ => (0%nat, 0%nat)
  end.
Definition api_c05_counts (kind wi wd ws : nat) (xs : list row) (ys : option (list row)) (edges : list Q) : list nat :=
  pcdelta_counts (row_metric kind wi wd ws) row0 edges xs ys.
(* raw counts for every order-preserving sub-collection of exactly min(N, m) elements (both collections) *)
Definition api_c05_sub_counts (kind wi wd ws : nat) (xs : list row) (ys : option (list row)) (edges : list Q) (m : nat)
    : list (list nat) :=
  let f := pcdelta_counts (row_metric kind wi wd ws) row0 edges in
  let sx := subsets (Nat.min m (length xs)) xs in
  match ys with
  | None => map (fun x => f x None) sx
  | Some y => flat_map (fun x => map (fun y' => f x (Some y')) (subsets (Nat.min m (length y)) y)) sx
  end.
Definition api_c05_tail (norm : bool) (c : Q) (hist : list nat) : list (option Q) :=
  c05_red (gen_pcdelta_tail norm c (map qn hist)).
Definition api_c05_spec_norm (c : Q) (hist : list nat) : list Q :=
  map Qred (if Qeq_bool c 0 then normalize hist else pseudo c hist).
Definition api_c05_zero_pairs (xs : list str) : nat := length (equal_pairs xs).
Definition api_c05_default_metric (is_table has_a has_b : bool) : nat := gen_default_metric is_table has_a has_b.
Definition api_c05_background (u : nat) : (list Z * nat) := (background_bins, length pcdelta_background_index).
Definition api_c05_defaults (u : nat) : (bool * Q * list Q) :=
  (gen_pcdelta_default_normalize, Qred gen_pcdelta_default_pseudocount, map Qred default_edges).
Definition api_c05_in_bin (edges : list Q) (t : nat) (v : Q) : bool := in_bin edges t v.
