(* C15: oracle entry points of the single-linkage model (definitions only).
   The graph entries api_components / api_graph_cc / api_refines live in Api.v. *)
From Coq Require Import List NArith Bool Arith.
From PV Require Import lib.Str model.Cluster.
Import ListNotations.

(* naive single-linkage dendrogram [(members, height)] of the distance matrix M on n points *)
Definition api_c15_single_linkage (n : nat) (M : list (list nat)) : list (list nat * nat) :=
  single_linkage n (mat_dist M).
(* flat clusters fcluster(criterion='distance', t): one label per point, in point order *)
Definition api_c15_sl_cut (n : nat) (M : list (list nat)) (t : nat) : list nat := sl_cut n (mat_dist M) t.
(* the same with the model's own Levenshtein matrix of the sequences (statement of C15_single_linkage_neighbour_graph) *)
Definition api_c15_sl_cut_lev (t : nat) (seqs : list str) : list nat :=
  sl_cut (length seqs) (mat_dist (lev_matrix seqs)) t.
(* edges (i, j), i <> j, with M[i][j] <= t *)
Definition api_c15_threshold_graph (n : nat) (M : list (list nat)) (t : nat) : list (nat * nat) :=
  threshold_graph n (mat_dist M) t.
