(* GENERATED from pyrepseq/nn.py (_histogram_encode, _to_len_bucket) by translate/regen_c11.py on every check; do not edit.
   Vocabulary: lib/PyDict.v (res / rbind / rfold, dicts as association lists in insertion order, arrays, rounded quotients).
   proofs/GenKdtreeP.v proves these equal to model/Engines.v encode and model/LenBucket.v to_len_bucket. *)
From Coq Require Import List NArith ZArith Bool Arith.
From PV Require Import lib.Str lib.PyStore lib.PyDict.
Import ListNotations.

(* _histogram_encode: translated from today's source *)
Definition gen_histogram_encode_exc (v_aminoacids : list N) (v_cdr3 : str) (v_compression : nat) : res (list Z) :=
  rbind (py_ceil_truediv (length v_aminoacids) v_compression) (fun t1 : nat =>
    let v_dimension : nat := t1 in
    rbind (rfold (fun (d : list (N * nat)) '((v_index, v_char) : nat * N) =>
        rbind (py_floor_truediv v_index v_compression) (fun t2 : nat =>
          Ok (dict_set N.eqb v_char t2 d)))
      (enumerate v_aminoacids) []) (fun v_position_map : list (N * nat) =>
      let v_ans : list Z := repeat 0%Z v_dimension in
      rbind (rfold (fun (v_ans : list Z) (v_char : N) =>
          rbind (dict_get N.eqb v_char v_position_map) (fun t3 : nat =>
            rbind (arr_get t3 v_ans) (fun t4 : Z =>
              rbind (arr_set t3 (t4 + 1%Z)%Z v_ans) (fun v_ans : list Z =>
                Ok v_ans))))
        v_cdr3 v_ans) (fun v_ans : list Z =>
        Ok v_ans))).
(* the returned value ([] stands for "an exception was raised") *)
Definition gen_histogram_encode (v_aminoacids : list N) (v_cdr3 : str) (v_compression : nat) : list Z :=
  unwrap [] (gen_histogram_encode_exc v_aminoacids v_cdr3 v_compression).

(* _to_len_bucket: translated from today's source *)
Definition gen_to_len_bucket_exc (v_seqs : list str) : res (list (nat * (list nat * list str))) :=
  let v_ans : list (nat * (list nat * list str)) := [] in
  rbind (rfold (fun (v_ans : list (nat * (list nat * list str))) '((v_index, v_seq) : nat * str) =>
      let v__len : nat := (length v_seq) in
      let v_ans : list (nat * (list nat * list str)) := (if dict_mem Nat.eqb v__len v_ans then v_ans else dict_set Nat.eqb v__len ([], []) v_ans) in
      rbind (dict_get Nat.eqb v__len v_ans) (fun t1 : list nat * list str =>
        let v_ans : list (nat * (list nat * list str)) := dict_set Nat.eqb v__len (fst t1 ++ [v_index], snd t1) v_ans in
        rbind (dict_get Nat.eqb v__len v_ans) (fun t2 : list nat * list str =>
          let v_ans : list (nat * (list nat * list str)) := dict_set Nat.eqb v__len (fst t2, snd t2 ++ [v_seq]) v_ans in
          Ok v_ans)))
    (enumerate v_seqs) v_ans) (fun v_ans : list (nat * (list nat * list str)) =>
    Ok v_ans).
(* the returned value ([] stands for "an exception was raised") *)
Definition gen_to_len_bucket (v_seqs : list str) : list (nat * (list nat * list str)) :=
  unwrap [] (gen_to_len_bucket_exc v_seqs).
