(* GENERATED from pyrepseq/nn.py (_lookup, glue of nearest_neighbor_tcrdist) by translate/regen_c14b.py on every check; do not edit. *)
From Coq Require Import List ZArith Bool Arith NArith.
From PV Require Import lib.Str lib.PySlice.
Import ListNotations.
(* values.flat[..] of a table with ncols columns *)
Definition gen_flat_index (ridx cidx ncols : nat) : nat := ((ridx * ncols) + cidx).

(* dict(ntrim=.., ctrim=.., dist_weight=.., gap_penalty=..) before the caller's tcrdist_kwargs are merged in *)
Definition gen_tcrdist_defaults : nat * nat * nat * nat := (3, 2, 3, 12).
Definition gen_tcrdist_call_defaults : nat * nat * bool := (2, 20, true).   (* max_edits, max_tcrdist, edit_on_trimmed *)

(* the CDR3 the candidate search runs on when edit_on_trimmed *)
Definition gen_trim_slice (ntrim ctrim : nat) (s : str) : str := py_slice s (Some (Z.of_nat ntrim)) (if (negb (Nat.eqb ctrim 0)) then (Some (- Z.of_nat ctrim)%Z) else None).

Definition gen_tcrdist_sum (v_ c_ : Z) : Z := (v_ + c_)%Z.
Definition gen_tcrdist_keep (d_ maxt_ : Z) : bool := Z.leb d_ maxt_.
(* chain='both': candidates from the beta chain, the alpha table and alpha CDR3 distance ADDED *)
Definition gen_both_adds : bool := true.
