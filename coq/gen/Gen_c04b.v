(* GENERATED from pyrepseq/nn.py (_generate_neighbors, class LookupDB: __init__, lookup) by translate/regen_c04b.py on every check; do not edit. *)
From Coq Require Import List Arith Bool.
From PV Require Import lib.Str lib.PyDict lib.Combinations gen.Gen_c03.
Import ListNotations.
Section GenLookupDB.
Context {D : Type}.
Variable hamming_neighbors : str -> list str.        (* hamming_neighbors(seq): default alphabet, all positions *)
Variable levenshtein_neighbors : str -> list str.    (* levenshtein_neighbors(seq): default alphabet *)

Definition gen_generate_neighbors (query : str) (max_edits : nat) (is_hamming : bool) : list (str * nat) :=
  let neighbor_func := if is_hamming then hamming_neighbors else levenshtein_neighbors in
  let ans := [(query, 0)] in
  fold_left (fun ans edit_distance =>
    fold_left (fun ans seq =>
      fold_left (fun ans new_seq =>
          if negb (dict_mem str_eqb new_seq ans) then dict_set str_eqb new_seq edit_distance ans else ans)
        (neighbor_func seq) ans)
      (map fst ans) ans)
    (py_range 1 (max_edits + 1)) ans.

Definition gen_lookupdb_init (seqs : list str) : list (str * list nat) :=
  fold_left (fun seq_dict '(index, seq) =>
      let seq_dict := if negb (dict_mem str_eqb seq seq_dict) then dict_set str_eqb seq [] seq_dict else seq_dict in
      dict_set str_eqb seq (unwrap [] (dict_get str_eqb seq seq_dict) ++ [index]) seq_dict)
    (enumerate seqs) [].

(* what lookup does with its custom_distance argument *)
Definition gen_lookup_is_hamming (c : cdist_arg) : bool := match c with CNone => false | CHamming => true | CCallable => false end.
Definition gen_lookup_is_custom (c : cdist_arg) : bool := match c with CNone => false | CHamming => false | CCallable => true end.
Definition gen_lookup_distance_used (c : cdist_arg) : nat := match c with CHamming => 0 | CNone => 1 | CCallable => 2 end.
(* `custom_distance in (None, "hamming")` evaluated AFTER the substitutions *)
Definition gen_lookup_reports_bfs_depth (c : cdist_arg) : bool := match c with CNone => false | CHamming => false | CCallable => false end.

Variable custom_distance : str -> str -> D.
Variable leD : D -> D -> bool.          (* a <= b on distance values *)
Variable of_depth : nat -> D.

Definition gen_lookupdb_lookup (self_seq_dict : list (str * list nat)) (seqs2 : list str) (max_edits : nat) (pdist_mode : bool)
    (is_hamming is_custom reports_bfs_depth : bool) (max_custom_distance : D) : list (nat * nat * D) :=
  fold_left (fun ans '(x_index, seq) =>
    let neighbors := gen_generate_neighbors seq max_edits is_hamming in
    fold_left (fun ans '(possible_edit, edit_distance) =>
        if dict_mem str_eqb possible_edit self_seq_dict then
          fold_left (fun ans y_index =>
              if (pdist_mode && (Nat.eqb x_index y_index)) then ans else
              if reports_bfs_depth then ans ++ [(x_index, y_index, of_depth edit_distance)] else
              let dist := custom_distance seq possible_edit in
              if ((negb is_custom) || (leD dist max_custom_distance)) then ans ++ [(x_index, y_index, dist)] else ans)
            (unwrap [] (dict_get str_eqb possible_edit self_seq_dict)) ans
        else ans)
      neighbors ans)
    (enumerate seqs2) [].
End GenLookupDB.
