(* GENERATED from pyrepseq/stats.py (jaccard_index, overlap, overlap_coefficient) by translate/regen_c16.py on every check; do not edit. *)
From Coq Require Import List Arith Bool NArith QArith.
From PV Require Import lib.PySet.
Import ListNotations.
Open Scope bool_scope.

Definition gen_jaccard_index (sA sB : bool) (A B : list (option N)) : sres :=
  let A := (if sA then py_dropna A else A) in
  let B := (if sB then py_dropna B else B) in
  let A := (py_set A) in
  let B := (py_set B) in
  (py_truediv (length (py_inter A B)) (length (py_union A B))).
Definition gen_overlap (sA sB : bool) (A B : list (option N)) : sres :=
  let A := (py_dropna A) in
  let B := (py_dropna B) in
  let A := (py_set A) in
  let B := (py_set B) in
  (SNat (length (py_inter A B))).
Definition gen_overlap_coefficient (sA sB : bool) (A B : list (option N)) : sres :=
  let A := (py_dropna A) in
  let B := (py_dropna B) in
  let A := (py_set A) in
  let B := (py_set B) in
  (if ((Nat.eqb (length A) 0) || (Nat.eqb (length B) 0)) then SNaN else (py_truediv (length (py_inter A B)) (Nat.min (length A) (length B)))).
