(* GENERATED from pyrepseq/entropy.py and pyrepseq/stats.py by translate/regen_c13.py on every check; do not edit. *)
From Coq Require Import Bool Arith.

Definition gen_renyi2_dispatch (by_falsy is_list : bool) : nat :=
  match by_falsy, is_list with
  | true, false => 0
  | true, true => 1
  | false, false => 2
  | false, true => 2
  end.
Definition gen_renyi2_args_ok : bool := true.
(* (which stdpc, which pc): 0 = on the column, 1 = joint *)
Definition gen_stdrenyi2_dispatch (is_list : bool) : nat * nat :=
  match is_list with
  | false => (0, 0)
  | true => (1, 1)
  end.
Definition gen_stdrenyi2_args_ok : bool := true.

Definition gen_conditional_dispatch (is_list : bool) : nat :=
  match is_list with
  | false => 0
  | true => 1
  end.
Definition gen_grouped_cross_dispatch (is_list : bool) : nat :=
  match is_list with
  | false => 0
  | true => 1
  end.

