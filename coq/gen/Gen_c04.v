(* GENERATED from pyrepseq/nn.py (_kdtree_leven: params["r"]) by translate/regen_c04.py on every check; do not edit. *)
From Coq Require Import PrimFloat Uint63.

Definition gen_radius (k : float) : float := (PrimFloat.mul (PrimFloat.sqrt (of_uint63 2%uint63)) k).
Definition gen_radius_known : bool := true.
Definition gen_ball_query_exact : bool := true.   (* options: r, workers *)
