(* GENERATED from pyrepseq/nn.py (_comb_gen) by translate/regen_c01.py on every check; do not edit. *)
From Coq Require Import List Arith ZArith.
From PV Require Import lib.Str lib.Combinations.
Import ListNotations.

Definition gen_comb_gen (seq : str) (max_edits : nat) : list str :=
  let _len := (length seq) in
  let ans := [seq] in
  let ans := ans ++ flat_map (fun edit =>
    flat_map (fun indexes =>
      let new_seq := (@nil str) in
      let offset := 0 in
      let '(new_seq, offset) := fold_left (fun st index => let '(new_seq, offset) := st in
        let new_seq := new_seq ++ [(slice seq offset index)] in
        let offset := (index + 1) in
        (new_seq, offset)) indexes (new_seq, offset) in
      let new_seq := new_seq ++ [(slice seq offset _len)] in
      [(concat new_seq)])
      (combinations (py_range 0 _len) edit))
    (py_range 1 (max_edits + 1)) in
  ans.
