(* GENERATED from pyrepseq/nn.py (_cal_custom_dist, the parameter tuple of _to_triplets) by translate/regen_c11b.py on every check; do not edit. *)
From Coq Require Import List Arith Bool.
From PV Require Import lib.Str lib.PyDict lib.PySorted.
Import ListNotations.
Section GenKdRow.
Context {D : Type}.
Variable leD : D -> D -> bool.                 (* x <= y on custom distances *)
Variable dist : str -> str -> D.               (* the caller's custom distance *)
Variable lev : str -> str -> nat.              (* rapidfuzz Levenshtein.distance *)

Definition gen_distance_filter (seqs : list str) (max_edits : nat) (max_cust_dist : D) (query : str) (x_ : nat * nat * D) : bool :=
  let edit_distance_ := lev query (nth (snd (fst x_)) seqs []) in
  ((leD (snd x_) max_cust_dist) && (Nat.leb edit_distance_ max_edits)).

Definition gen_cal_custom_dist (seqs : list str) (max_edits : nat) (limit : option nat) (max_cust_dist : D) (i : nat) (y_indices : list nat)
  : list (nat * nat * D) :=
  let query := nth i seqs [] in
  let y_indices := filter (fun y_ => negb (Nat.eqb y_ i)) y_indices in
  let ans := map (fun y_ => (i, y_, dist query (nth y_ seqs []))) y_indices in
  let ans := py_sorted leD (fun x_ : nat * nat * D => snd x_) (filter (gen_distance_filter seqs max_edits max_cust_dist query) ans) in
  match limit with None => ans | Some m_ => firstn m_ ans end.
End GenKdRow.

(* _cal_levenshtein: default and Hamming mode; `hamming` / `levenshtein` are rapidfuzz's distances, `extract` the vocabulary rf_extract *)
Definition gen_cal_levenshtein (hamming levenshtein : str -> str -> nat) (seqs : list str) (max_edits : nat) (limit : option nat)
  (is_hamming : bool) (i : nat) (y_indices : list nat) : list (nat * nat * nat) :=
  let scorer := if is_hamming then hamming else levenshtein in
  let choices := filter (fun y_ => negb (Nat.eqb y_ i)) y_indices in
  let result := rf_extract scorer (nth i seqs []) (map (fun c_ => nth c_ seqs []) choices) max_edits limit in
  fold_left (fun ans r_ => ans ++ [(i, nth (snd r_) choices 0, snd (fst r_))]) result [].

(* _to_triplets: is the custom-distance worker chosen for custom_distance = None / 'hamming' / a callable? *)
Definition gen_worker_is_custom : bool * bool * bool := (false, false, true).
