(* GENERATED from pyrepseq/stats.py (pc: counting tails of both branches) by translate/regen_c02.py on every check; do not edit. *)
From Coq Require Import List QArith ZArith Bool Arith.
From PV Require Import lib.Val lib.NpUnique gen.Gen_stats.
Import ListNotations.
Open Scope Q_scope.

Definition gq (n : nat) : Q := inject_Z (Z.of_nat n).
Section GenPc.
Context {X : Type} (eqd : forall a b : X, {a = b} + {a <> b}) (uniq : list X -> list X).
(* one sample: N = len(array); _, counts = np.unique(array, return_counts=True); return <formula> *)
Definition gen_pc_one_formula (v_N : Q) (counts : list Q) : Q := ((sumQf (fun x_ => (x_ * (x_ - ((1) # 1)))) counts) / (v_N * (v_N - ((1) # 1)))).
Definition gen_pc_one (array : list X) : Q :=
  let v_N := gq (length array) in
  let '(_, v_counts) := np_unique_counts eqd uniq array in
  gen_pc_one_formula v_N (map gq v_counts).
(* two samples: v, c = np.unique(array, ..); v2, c2 = np.unique(array2, ..); _, i1, i2 = np.intersect1d(v, v2, ..);
   return np.sum(c[i1] * c2[i2]) / (len(array) * len(array2)) *)
Definition gen_pc_two (array array2 : list X) : Q :=
  let '(v_v, v_c) := np_unique_counts eqd uniq array in
  let '(v_v2, v_c2) := np_unique_counts eqd uniq array2 in
  let '(_, v_i1, v_i2) := np_intersect1d eqd v_v v_v2 in
  sumQ (map2 Qmult (map gq (take_idx 0%nat v_c v_i1)) (map gq (take_idx 0%nat v_c2 v_i2))) / (gq (length array) * gq (length array2)).
End GenPc.
