(* GENERATED from pyrepseq/metric/tcr_metric/tcr_levenshtein.py and tcr_metric.py by translate/regen_c09.py
   on every check; do not edit. *)
From Coq Require Import List NArith.
Import ListNotations.

Inductive c09_weight := WAlpha | WBeta | WCdr1 | WCdr2 | WCdr3.
Inductive c09_chain_scope := Paired | AlphaOnly | BetaOnly.
Inductive c09_cdr_scope := AllCdr | Cdr3Only.

(* _calc_cdist_matrix_for_column: each inner list is one if/elif chain of `"<s>" in column` tests, in program
   order; the branch taken multiplies the per-column matrix by the named weight *)
Definition gen_c09_weight_tests : list (list (list N * c09_weight)) :=
  [[([65]%N, WAlpha); ([66]%N, WBeta)];
   [([49]%N, WCdr1); ([50]%N, WCdr2); ([51]%N, WCdr3)]].

(* _get_columns_to_compare evaluated for each scope *)
Definition gen_c09_columns (cs : c09_chain_scope) (ls : c09_cdr_scope) : list (list N) :=
  match cs, ls with
  | Paired, AllCdr => [[67;68;82;51;65]%N; [67;68;82;51;66]%N; [67;68;82;49;65]%N; [67;68;82;49;66]%N; [67;68;82;50;65]%N; [67;68;82;50;66]%N]
  | Paired, Cdr3Only => [[67;68;82;51;65]%N; [67;68;82;51;66]%N]
  | AlphaOnly, AllCdr => [[67;68;82;51;65]%N; [67;68;82;49;65]%N; [67;68;82;50;65]%N]
  | AlphaOnly, Cdr3Only => [[67;68;82;51;65]%N]
  | BetaOnly, AllCdr => [[67;68;82;51;66]%N; [67;68;82;49;66]%N; [67;68;82;50;66]%N]
  | BetaOnly, Cdr3Only => [[67;68;82;51;66]%N]
  end.

(* class attributes _chain_scope / _cdr_scope of the six public classes, by class name *)
Definition gen_c09_classes : list (list N * (c09_chain_scope * c09_cdr_scope)) :=
  [([65;108;112;104;97;67;100;114;51;76;101;118;101;110;115;104;116;101;105;110]%N, (AlphaOnly, Cdr3Only))  (* AlphaCdr3Levenshtein *);
   ([65;108;112;104;97;67;100;114;76;101;118;101;110;115;104;116;101;105;110]%N, (AlphaOnly, AllCdr))  (* AlphaCdrLevenshtein *);
   ([66;101;116;97;67;100;114;51;76;101;118;101;110;115;104;116;101;105;110]%N, (BetaOnly, Cdr3Only))  (* BetaCdr3Levenshtein *);
   ([66;101;116;97;67;100;114;76;101;118;101;110;115;104;116;101;105;110]%N, (BetaOnly, AllCdr))  (* BetaCdrLevenshtein *);
   ([67;100;114;51;76;101;118;101;110;115;104;116;101;105;110]%N, (Paired, Cdr3Only))  (* Cdr3Levenshtein *);
   ([67;100;114;76;101;118;101;110;115;104;116;101;105;110]%N, (Paired, AllCdr))  (* CdrLevenshtein *)].

(* tcr_metric.is_in_standard_format: the TCR column names, sorted *)
Definition gen_c09_tcr_columns : list (list N) :=
  [[67;68;82;51;65]%N; [67;68;82;51;66]%N; [84;82;65;74]%N; [84;82;65;86]%N; [84;82;66;74]%N; [84;82;66;86]%N].
