(* GENERATED from pyrepseq/distance.py (levenshtein_neighbors, hamming_neighbors, _isdist2_hamming, _isdist3_hamming)
   by translate/regen_c12.py on every check; do not edit.  proofs/GenNbrsP.v proves these equal to model/Nbrs.v, model/Nndist.v. *)
From Coq Require Import List NArith Bool Arith.
From PV Require Import lib.Str.
Import ListNotations.

(* levenshtein_neighbors: translated from today's source *)
Definition gen_levenshtein_neighbors (v_alphabet : str) (v_x : str) : list str :=
  ((flat_map (fun v_i : nat => (if (andb (Nat.ltb 0 v_i) (N.eqb (nth v_i v_x 0%N) (nth (v_i - 1) v_x 0%N))) then [] else [((firstn v_i v_x) ++ (skipn (S v_i) v_x))])) (seq 0 (length v_x))) ++ ((flat_map (fun v_i : nat => (flat_map (fun v_aa : N => (if (N.eqb v_aa (nth v_i v_x 0%N)) then [] else [(((firstn v_i v_x) ++ [v_aa]) ++ (skipn (S v_i) v_x))])) v_alphabet)) (seq 0 (length v_x))) ++ (flat_map (fun v_i : nat => (flat_map (fun v_aa : N => (if (andb (Nat.ltb 0 v_i) (N.eqb v_aa (nth (v_i - 1) v_x 0%N))) then [] else [(((firstn v_i v_x) ++ [v_aa]) ++ (skipn v_i v_x))])) v_alphabet)) (seq 0 (S (length v_x)))))).

(* hamming_neighbors: translated from today's source *)
(* DOMAIN GUARD: Python raises IndexError when a position outside 0 .. len(x)-1 is reached (x[i] is evaluated);
   the generated function yields nothing for such a position.  Positions are natural numbers. *)
Definition gen_hamming_neighbors (v_alphabet : str) (v_variable_positions : list nat) (v_x : str) : list str :=
  (flat_map (fun v_i : nat => if Nat.ltb v_i (length v_x) then (flat_map (fun v_aa : N => (if (N.eqb v_aa (nth v_i v_x 0%N)) then [] else [(((firstn v_i v_x) ++ [v_aa]) ++ (skipn (S v_i) v_x))])) v_alphabet) else []) v_variable_positions).
(* `variable_positions=None`: all positions *)
Definition gen_hamming_neighbors_default_positions (v_x : str) : list nat := (seq 0 (length v_x)).
Definition gen_hamming_neighbors_default (v_alphabet : str) (v_x : str) : list str :=
  gen_hamming_neighbors v_alphabet (gen_hamming_neighbors_default_positions v_x) v_x.

(* _isdist2_hamming: translated from today's source *)
(* the candidates tested by `if <candidate> in reference: return True`, in the order of the loops; the global `aminoacids` is a parameter *)
Definition gen_isdist2_candidates (v_aminoacids : str) (v_x : str) : list str :=
  (flat_map (fun v_i : nat => (flat_map (fun v_aai : N => (if (N.eqb v_aai (nth v_i v_x 0%N)) then [] else (let v_si := (((firstn v_i v_x) ++ [v_aai]) ++ (skipn (S v_i) v_x)) in (flat_map (fun v_j : nat => (flat_map (fun v_aaj : N => (if (N.eqb v_aaj (nth v_j v_x 0%N)) then [] else [(((firstn v_j v_si) ++ [v_aaj]) ++ (skipn (S v_j) v_si))])) v_aminoacids)) (seq (S v_i) ((length v_x) - (S v_i))))))) v_aminoacids)) (seq 0 (length v_x))).
(* return True at the first candidate that is in the reference, `return False` after the loops *)
Definition gen_isdist2 (v_aminoacids : str) (v_x : str) (v_reference : list str) : bool :=
  existsb (fun y => memb str_eq_dec y v_reference) (gen_isdist2_candidates v_aminoacids v_x).

(* _isdist3_hamming: translated from today's source *)
(* the candidates tested by `if <candidate> in reference: return True`, in the order of the loops; the global `aminoacids` is a parameter *)
Definition gen_isdist3_candidates (v_aminoacids : str) (v_x : str) : list str :=
  (flat_map (fun v_i : nat => (flat_map (fun v_aai : N => (if (N.eqb v_aai (nth v_i v_x 0%N)) then [] else (let v_si := (((firstn v_i v_x) ++ [v_aai]) ++ (skipn (S v_i) v_x)) in (flat_map (fun v_j : nat => (flat_map (fun v_aaj : N => (if (N.eqb v_aaj (nth v_j v_x 0%N)) then [] else (let v_sij := (((firstn v_j v_si) ++ [v_aaj]) ++ (skipn (S v_j) v_si)) in (flat_map (fun v_k : nat => (flat_map (fun v_aak : N => (if (N.eqb v_aak (nth v_k v_x 0%N)) then [] else [(((firstn v_k v_sij) ++ [v_aak]) ++ (skipn (S v_k) v_sij))])) v_aminoacids)) (seq (S v_j) ((length v_x) - (S v_j))))))) v_aminoacids)) (seq (S v_i) ((length v_x) - (S v_i))))))) v_aminoacids)) (seq 0 (length v_x))).
(* return True at the first candidate that is in the reference, `return False` after the loops *)
Definition gen_isdist3 (v_aminoacids : str) (v_x : str) (v_reference : list str) : bool :=
  existsb (fun y => memb str_eq_dec y v_reference) (gen_isdist3_candidates v_aminoacids v_x).
