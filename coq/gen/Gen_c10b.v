(* GENERATED from pyrepseq/nn.py (_make_output: the matrix construction) by translate/regen_c10b.py on every check; do not edit. *)
From Coq Require Import List ZArith Arith.
Import ListNotations.
Definition gen_make_output_coo (triplets : list (nat * nat * Z)) (len_seqs : nat) (len_seqs2 : option nat)
  : (nat * nat) * (list Z * (list nat * list nat)) :=
  let acc := fold_left (fun (st : list Z * (list nat * list nat)) (t_ : nat * nat * Z) =>
                          (fst st ++ [snd t_], (fst (snd st) ++ [snd (fst t_)], snd (snd st) ++ [fst (fst t_)])))
                       triplets ([], ([], [])) in
  let shape := match len_seqs2 with None => (len_seqs, len_seqs) | Some m_ => (len_seqs, m_) end in
  (shape, acc).
