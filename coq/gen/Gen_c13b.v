(* GENERATED from pyrepseq/stats.py (pc_conditional: weighting tail) by translate/regen_c13b.py on every check; do not edit. *)
From Coq Require Import List QArith.
From PV Require Import lib.Val.
Import ListNotations.
Open Scope Q_scope.
Definition gen_cond_default_weights (ngroups : nat) : list Q := repeat 1 ngroups.
Definition gen_cond_mean (group_weights conditional_pcs : list Q) : Q :=
  let norm := sumQ (map (fun w_ => (w_ ^ 2)) group_weights) in
  let adjusted_group_weights := map (fun w_ => (w_ ^ 2) / norm) group_weights in
  sumQ (map (fun wp => fst wp * snd wp) (combine adjusted_group_weights conditional_pcs)).
