(* GENERATED from pyrepseq/util.py (seqs_to_regex, seqs_to_consensus; align=False behaviour) by translate/regen_c19.py on every check; do not edit. *)
From Coq Require Import List Arith Bool NArith.
From PV Require Import lib.Str model.Summaries model.LmMatrix.
Import ListNotations.
Definition gen_seqs_to_regex (seqs : list str) : str :=
  let matrix := lm_matrix seqs in
  let cols := fst matrix in
  let n := length seqs in
  fold_left (fun (regex_ : str) (row : list nat) =>
    let s_ := (row_index_gt 0 cols row) in
    let regex_ := (if (Nat.ltb 1 (length s_)) then let regex_ := regex_ ++ ([91%N] ++ s_ ++ [93%N]) in
    regex_ else let regex_ := regex_ ++ s_ in
    regex_) in
    let gaps_ := (negb (Nat.eqb (list_sum row) n)) in
    let regex_ := (if gaps_ then let regex_ := regex_ ++ [63%N] in
    regex_ else regex_) in
    regex_) (snd matrix) [].

Definition gen_seqs_to_consensus (seqs : list str) : str :=
  let matrix := lm_matrix seqs in
  let cols := fst matrix in
  let n := length seqs in
  fold_left (fun (s_ : str) (row : list nat) =>
    let ngaps_ := (n - (list_sum row)) in
    if (Nat.ltb (Nat.div n 2) ngaps_) then s_ else
    let s_ := s_ ++ (row_idxmax cols row) in
    s_) (snd matrix) [].
