(* GENERATED from pyrepseq/stats.py by translate/regen_c17.py on every check; do not edit. *)
From Coq Require Import List QArith Bool Arith.
From PV Require Import model.Powerlaw.
Import ListNotations.
Open Scope Q_scope.

(* accepted methods: ['simple', 'continuitycorrection', 'exact']; default exact; filter c >= cmin; exact branch: numeric optimiser, not translated *)
Definition gen_mle_keep (c0 : list Q) (cmin : Q) : list Q := filter (fun x_ => Qle_bool cmin x_) c0.

Definition gen_mle_simple (ln : Q -> Q) (c0 : list Q) (cmin : Q) : Q :=
  let c := gen_mle_keep c0 cmin in
  (((1) # 1) + ((lenQ c) / (sumQrf (fun x_ => (ln (x_ / cmin))) c))).
Definition gen_mle_simple_defined (ln : Q -> Q) (c0 : list Q) (cmin : Q) : bool :=
  let c := gen_mle_keep c0 cmin in
  negb (Qeq_bool (sumQrf (fun x_ => (ln (x_ / cmin))) c) 0) && true.

Definition gen_mle_continuitycorrection (ln : Q -> Q) (c0 : list Q) (cmin : Q) : Q :=
  let c := gen_mle_keep c0 cmin in
  (((1) # 1) + ((lenQ c) / (sumQrf (fun x_ => (ln (x_ / (cmin - ((1) # 2))))) c))).
Definition gen_mle_continuitycorrection_defined (ln : Q -> Q) (c0 : list Q) (cmin : Q) : bool :=
  let c := gen_mle_keep c0 cmin in
  negb (Qeq_bool (sumQrf (fun x_ => (ln (x_ / (cmin - ((1) # 2))))) c) 0) && true.

