(* GENERATED from pyrepseq/stats.py (subsample) and pyrepseq/distance.py (downsample) by translate/regen_c17b.py on every check; do not edit. *)
From Coq Require Import List Arith Bool.
From PV Require Import lib.NpUnique lib.NpChoice.
Import ListNotations.
Definition gen_subsample (uniq : list nat -> list nat) (counts : list nat) (n : nat) (draw : nat -> list nat) : list nat * list nat :=
  let unpacked := concat (map (fun ic_ => repeat (fst ic_) (snd ic_)) (enumerate_from 0 counts)) ++ [] in
  let sample := np_choice 0 unpacked (draw n) in
  let '(unique_, ucounts_) := np_unique_counts Nat.eq_dec uniq sample in
  (unique_, ucounts_).

(* what a branch returns: the argument itself, `seqs.sample(n=k)`, or `np.random.choice(seqs, k, replace=False)` *)
Inductive dresult := RSame | RRows (k : nat) | RChoice (k : nat).
(* the branch downsample takes; seqs_none / maxseqs_none: the argument is None; xs_ the elements (rows) of seqs, m_ the number maxseqs *)
Definition gen_downsample_branch {X : Type} (seqs_none maxseqs_none is_df : bool) (xs_ : list X) (m_ : nat) : dresult :=
  if (maxseqs_none || seqs_none) then RSame else
  if (Nat.leb (length xs_) m_) then RSame else
  if is_df then RRows (m_) else
  RChoice (m_).

Definition gen_downsample {X : Type} (d : X) (seqs : option (list X)) (maxseqs : option nat) (is_df : bool) (draw : nat -> list nat)
  : option (list X) :=
  let xs := match seqs with Some l => l | None => [] end in
  match gen_downsample_branch (match seqs with None => true | _ => false end) (match maxseqs with None => true | _ => false end)
                              is_df xs (match maxseqs with Some m => m | None => 0 end) with
  | RSame => seqs
  | RRows k => Some (df_sample d xs (draw k))
  | RChoice k => Some (np_choice d xs (draw k))
  end.
