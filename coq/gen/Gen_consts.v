(* GENERATED from pyrepseq sources by translate/regen_more.py on every check; do not edit. *)
From Coq Require Import List NArith ZArith.
Import ListNotations.

Definition gen_aminoacids : list N := [65;67;68;69;70;71;72;73;75;76;77;78;80;81;82;83;84;86;87;89]%N.
Definition gen_chunksize (len_seqs n_cpu : nat) : nat := (Nat.max 1 (Nat.div len_seqs n_cpu)).
