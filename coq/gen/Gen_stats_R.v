(* GENERATED from pyrepseq/stats.py by translate/regen.py on every check; do not edit. *)
From Coq Require Import List Reals.
Import ListNotations.
Open Scope R_scope.

Fixpoint sumR (l : list R) : R := match l with [] => 0 | x :: l' => x + sumR l' end.
Definition sumRf (f : R -> R) (l : list R) : R := sumR (map f l).

Definition gen_pc_n_R (n : list R) : R :=
  let v_N := (sumRf (fun x_ => x_) n) in
  ((sumRf (fun x_ => (x_ * (x_ - (IZR (1))))) n) / (v_N * (v_N - (IZR (1))))).

Definition gen_varpc_n_R (n : list R) : R :=
  let v_N := (sumRf (fun x_ => x_) n) in
  let v_p2_hat := ((sumRf (fun x_ => (x_ * (x_ - (IZR (1))))) n) / (v_N * (v_N - (IZR (1))))) in
  let v_p3_hat := ((sumRf (fun x_ => ((x_ * (x_ - (IZR (1)))) * (x_ - (IZR (2))))) n) / ((v_N * (v_N - (IZR (1)))) * (v_N - (IZR (2))))) in
  let v_beta := (((IZR (2)) * (((IZR (2)) * v_N) - (IZR (3)))) / ((v_N - (IZR (2))) * (v_N - (IZR (3))))) in
  let v_var := (((((((IZR (4)) * (v_N - (IZR (2)))) / (v_N * (v_N - (IZR (1))))) * ((IZR (1)) + v_beta)) * v_p3_hat) - (v_beta * (v_p2_hat ^ 2))) + ((((IZR (2)) / (v_N * (v_N - (IZR (1))))) * ((IZR (1)) + v_beta)) * v_p2_hat)) in
  v_var.

(* stdpc_n(n) = varpc_n(n) ** 0.5; stdpc(array) = stdpc_n(np.unique(array, return_counts=True)[1]) *)
Definition gen_stdpc_n_R (n : list R) : R := sqrt (gen_varpc_n_R n).
Definition gen_stdpc_R {X : Type} (unique_counts : list X -> list R) (a : list X) : R := gen_stdpc_n_R (unique_counts a).

