(* GENERATED from pyrepseq/distance.py (the loop nests of pdist and cdist) by translate/regen_c08.py on every check; do not edit.
   Store-passing encoding, vocabulary in lib/PyStore.v; proofs/GenDistP.v proves gen_pdist = pdist_loop and gen_cdist = cdist_loop. *)
From Coq Require Import List ZArith.
From PV Require Import lib.PyStore.
Import ListNotations.
Local Open Scope Z_scope.

Section GenC08.
Context {X D : Type}.
Variable f : X -> X -> D.     (* the metric, uninterpreted (keyword arguments included) *)
Variable d0 : X.              (* default of an out-of-range load *)
Variable dd : D.              (* content of an uninitialised np.empty cell *)

(* pdist: dropped as bookkeeping: `if metric is None: metric = ...` (the default metric is one instance of f); list(strings) (a copy); dtype= of np.empty; **kwargs of the metric call (part of f) *)
#[using="f d0 dd"] Definition gen_pdist (v_strings : list X) : list D :=
  let v_strings := v_strings in
  let v_m := (Z.of_nat (length v_strings)) in
  let v_dm := repeat dd (Z.to_nat ((v_m * (v_m - 1)) / 2)) in
  let v_k := 0 in
  let '(v_dm, v_k) := fold_left (fun st v_i =>
      let '(v_dm, v_k) := st in
      fold_left (fun st v_j =>
          let '(v_dm, v_k) := st in
          let v_dm := zupd v_k (f (znth v_i v_strings d0) (znth v_j v_strings d0)) v_dm in
          let v_k := (v_k + 1) in
          (v_dm, v_k))
        (zrange (v_i + 1) v_m) (v_dm, v_k))
    (zrange 0 (v_m - 1)) (v_dm, v_k) in
  v_dm.

(* cdist: dropped as bookkeeping: `if metric is None: metric = ...` (the default metric is one instance of f); list(stringsA) (a copy); list(stringsB) (a copy); dtype= of np.empty; **kwargs of the metric call (part of f) *)
#[using="f d0 dd"] Definition gen_cdist (v_stringsA v_stringsB : list X) : list (list D) :=
  let v_stringA := v_stringsA in
  let v_stringB := v_stringsB in
  let v_mA := (Z.of_nat (length v_stringA)) in
  let v_mB := (Z.of_nat (length v_stringB)) in
  let v_dm := repeat (repeat dd (Z.to_nat v_mB)) (Z.to_nat v_mA) in
  fold_left (fun st v_i =>
      let v_dm := st in
      fold_left (fun st v_j =>
          let v_dm := st in
          let v_dm := zupd2 v_i v_j (f (znth v_i v_stringA d0) (znth v_j v_stringB d0)) v_dm in
          v_dm)
        (zrange 0 v_mB) v_dm)
    (zrange 0 v_mA) v_dm.

End GenC08.
