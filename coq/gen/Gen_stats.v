(* GENERATED from pyrepseq/stats.py by translate/regen.py on every check; do not edit. *)
From Coq Require Import List QArith Bool Arith.
From PV Require Import lib.Val.
Import ListNotations.
Open Scope Q_scope.

Definition sumQf (f : Q -> Q) (l : list Q) : Q := sumQ (map f l).

Definition gen_chao1 (counts : list Q) : val :=
  (bind (idx counts 0) (fun x1_f1 =>
  (bind (vsum counts) (fun x2_Sobs =>
  (bindc (cor (clen counts 1) (ceq (idx counts 1) (V (0 # 1)))) (fun c3 =>
  if c3 then (vadd (V x2_Sobs) (vdiv (vmul (V x1_f1) (vsub (V x1_f1) (V (1 # 1)))) (V (2 # 1))))
  else (bind (idx counts 1) (fun x4_f2 =>
  (vadd (V x2_Sobs) (vdiv (vpow (V x1_f1) 2) (vmul (V (2 # 1)) (V x4_f2)))))))))))).

Definition gen_var_chao1 (counts : list Q) : val :=
  (bind (idx counts 0) (fun x1_f1 =>
  (bindc (clen counts 1) (fun c2 =>
  if c2 then NaN
  else (bindc (ceq (idx counts 1) (V (0 # 1))) (fun c3 =>
  if c3 then NaN
  else (bind (idx counts 1) (fun x4_f2 =>
  (bind (vdiv (V x1_f1) (V x4_f2)) (fun x5_ratio =>
  (vmul (V x4_f2) (vadd (vadd (vmul (V ((1) # 2)) (vpow (V x5_ratio) 2)) (vpow (V x5_ratio) 3)) (vmul (V ((1) # 4)) (vpow (V x5_ratio) 4)))))))))))))).

Definition gen_chao2 (counts : list Q) (p_m : Q) : val :=
  (bind (idx counts 0) (fun x1_q1 =>
  (bind (vsum counts) (fun x2_Sobs =>
  (bindc (cor (clen counts 1) (ceq (idx counts 1) (V (0 # 1)))) (fun c3 =>
  if c3 then NaN
  else (bind (idx counts 1) (fun x4_q2 =>
  (vadd (V x2_Sobs) (vdiv (vpow (V x1_q1) 2) (vmul (V (2 # 1)) (V x4_q2)))))))))))).

Definition gen_var_chao2 (counts : list Q) (p_m : Q) : val :=
  (bind (idx counts 0) (fun x1_q1 =>
  (bind (vsum counts) (fun x2_Sobs =>
  (bindc (cor (clen counts 1) (ceq (idx counts 1) (V (0 # 1)))) (fun c3 =>
  if c3 then NaN
  else (bind (idx counts 1) (fun x4_q2 =>
  (bind (vdiv (V x1_q1) (V x4_q2)) (fun x5_ratio =>
  (vmul (V x4_q2) (vadd (vadd (vmul (V ((1) # 2)) (vpow (V x5_ratio) 2)) (vpow (V x5_ratio) 3)) (vmul (V ((1) # 4)) (vpow (V x5_ratio) 4)))))))))))))).

Definition gen_pc_n_Q (n : list Q) : Q :=
  let v_N := (sumQf (fun x_ => x_) n) in
  ((sumQf (fun x_ => (x_ * (x_ - ((1) # 1)))) n) / (v_N * (v_N - ((1) # 1)))).
Definition gen_pc_n_defined (n : list Q) : bool :=
  let v_N := (sumQf (fun x_ => x_) n) in
  negb (Qeq_bool (v_N * (v_N - ((1) # 1))) 0) && true.

Definition gen_varpc_n_Q (n : list Q) : Q :=
  let v_N := (sumQf (fun x_ => x_) n) in
  let v_p2_hat := ((sumQf (fun x_ => (x_ * (x_ - ((1) # 1)))) n) / (v_N * (v_N - ((1) # 1)))) in
  let v_p3_hat := ((sumQf (fun x_ => ((x_ * (x_ - ((1) # 1))) * (x_ - ((2) # 1)))) n) / ((v_N * (v_N - ((1) # 1))) * (v_N - ((2) # 1)))) in
  let v_beta := ((((2) # 1) * ((((2) # 1) * v_N) - ((3) # 1))) / ((v_N - ((2) # 1)) * (v_N - ((3) # 1)))) in
  let v_var := ((((((((4) # 1) * (v_N - ((2) # 1))) / (v_N * (v_N - ((1) # 1)))) * (((1) # 1) + v_beta)) * v_p3_hat) - (v_beta * (v_p2_hat ^ 2))) + (((((2) # 1) / (v_N * (v_N - ((1) # 1)))) * (((1) # 1) + v_beta)) * v_p2_hat)) in
  v_var.
Definition gen_varpc_n_defined (n : list Q) : bool :=
  let v_N := (sumQf (fun x_ => x_) n) in
  let v_p2_hat := ((sumQf (fun x_ => (x_ * (x_ - ((1) # 1)))) n) / (v_N * (v_N - ((1) # 1)))) in
  let v_p3_hat := ((sumQf (fun x_ => ((x_ * (x_ - ((1) # 1))) * (x_ - ((2) # 1)))) n) / ((v_N * (v_N - ((1) # 1))) * (v_N - ((2) # 1)))) in
  let v_beta := ((((2) # 1) * ((((2) # 1) * v_N) - ((3) # 1))) / ((v_N - ((2) # 1)) * (v_N - ((3) # 1)))) in
  let v_var := ((((((((4) # 1) * (v_N - ((2) # 1))) / (v_N * (v_N - ((1) # 1)))) * (((1) # 1) + v_beta)) * v_p3_hat) - (v_beta * (v_p2_hat ^ 2))) + (((((2) # 1) / (v_N * (v_N - ((1) # 1)))) * (((1) # 1) + v_beta)) * v_p2_hat)) in
  negb (Qeq_bool (v_N * (v_N - ((1) # 1))) 0) && negb (Qeq_bool ((v_N * (v_N - ((1) # 1))) * (v_N - ((2) # 1))) 0) && negb (Qeq_bool ((v_N - ((2) # 1)) * (v_N - ((3) # 1))) 0) && negb (Qeq_bool (v_N * (v_N - ((1) # 1))) 0) && negb (Qeq_bool (v_N * (v_N - ((1) # 1))) 0) && true.

