(* GENERATED from pyrepseq/distance.py (_flatten_list, next_nearest_neighbors, find_neighbor_pairs, find_neighbor_pairs_index) by translate/regen_c12c.py on every check; do not edit. *)
From Coq Require Import List Arith Bool.
From PV Require Import lib.Str lib.PyDict lib.NpUnique.
Import ListNotations.
Definition gen_flatten_list {A : Type} (inlist : list (list A)) : list A := concat inlist.

(* one pass of the while loop per unit of fuel (the counter runs from its initial value up to maxdistance) *)
Fixpoint gen_nnn_while (iterS : list str -> list str) (nb : str -> list str) (fuel : nat) (neighbors : list (list str)) : list (list str) :=
  match fuel with
  | 0 => neighbors
  | S fuel' =>
      let neighbors_dist := fold_left (fun acc y_ => acc ++ nb y_) (last neighbors []) [] in
      gen_nnn_while iterS nb fuel' (neighbors ++ [iterS neighbors_dist])
  end.
Definition gen_next_nearest_neighbors (iterS : list str -> list str) (nb : str -> list str) (x : str) (maxdistance : nat) : list str :=
  let neighbors := gen_nnn_while iterS nb (maxdistance - 1) [nb x] in
  let neighbor_set := iterS (gen_flatten_list neighbors) in
  remove str_eq_dec x neighbor_set.
Definition gen_nnn_default_maxdistance : nat := 2.

Definition gen_find_neighbor_pairs (sortedS iterS : list str -> list str) (nb : str -> list str) (seqs : list str) : list (str * str) :=
  let reference := iterS seqs in
  fst (fold_left (fun (st : list (str * str) * list str) x_ =>
                    let '(pairs, reference) := st in
                    (pairs ++ map (fun y_ => (x_, y_)) (iterS (filter (fun c => memb str_eq_dec c reference) (iterS (nb x_)))),
                     remove str_eq_dec x_ reference))
                 (sortedS seqs) ([], reference)).

Definition gen_find_neighbor_pairs_index (iterS : list str -> list str) (nb : str -> list str) (seqs : list str) : list (nat * nat) :=
  let reference := iterS seqs in
  fold_left (fun (pairs : list (nat * nat)) (ix_ : nat * str) =>
               pairs ++ map (fun y_ => (fst ix_, index_of str_eq_dec y_ seqs))
                            (iterS (filter (fun c => memb str_eq_dec c reference) (iterS (nb (snd ix_))))))
            (enumerate seqs) [].
(* defaults of `neighborhood`: hamming_neighbors / hamming_neighbors *)
Definition gen_find_pairs_default_is_hamming : bool := true.
