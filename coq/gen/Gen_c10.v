(* GENERATED from pyrepseq/nn.py (_check_common_input, _make_output, engine heads) by translate/regen_c10.py on every check; do not edit. *)
From Coq Require Import List Bool Arith ZArith String.
From PV Require Import model.Output.
Import ListNotations.
Open Scope string_scope.
Open Scope bool_scope.
Definition gen_check_input (a : call_args) : bool :=
  (Nat.ltb 0 (a_len a)) &&
  (a_seqs_strings a) &&
  ((a_max_edits_int a) && (Z.ltb 0 (a_max_edits a))) &&
  (match a_max_returns a with None => ((false && false) || true) | Some (isint, v) => ((isint && (Z.ltb 0 v)) || false) end) &&
  ((a_n_cpu_int a) && (Z.ltb 0 (a_n_cpu a))) &&
  (a_custom_ok a) &&
  ((a_maxc_number a) && (a_maxc_nonneg a)) &&
  (a_output_known a) &&
  (match a_seqs2 a with None => true | Some ok => ok end).
Definition gen_output_types : list string := ["coo_matrix"; "triplets"; "ndarray"].
Definition gen_output_dispatch : list string := ["triplets"; "coo_matrix"].
Definition gen_engines_validate : list (string * bool) := [("kdtree", true); ("hash_based", true); ("symdel", true); ("nearest_neighbor", true)].
