(* GENERATED from pyrepseq/distance.py by translate/regen_c05.py on every check; do not edit. *)
From Coq Require Import List QArith NArith ZArith Bool Arith.
From PV Require Import lib.Val.
Import ListNotations.
Open Scope Q_scope.

(* NumPy float division: a finite quotient, or None for a non-finite result (0/0 = nan, x/0 = inf) *)
Definition np_div (a b : Q) : option Q := if Qeq_bool b 0 then None else Some (a / b).

Definition gen_pcdelta_tail (normalize : bool) (pseudocount : Q) (hist : list Q) : list (option Q) :=
  (if (negb normalize) then (map Some hist) else
   (if (negb (negb (Qeq_bool pseudocount 0))) then (map (fun h_ => np_div h_ (sumQ hist)) hist) else
   (let x1_hist_sum := ((sumQ hist) + (((2) # 1) * pseudocount)) in
   (let x2_hist := (map (fun h_ => h_ + pseudocount) hist) in
   (map (fun h_ => np_div h_ x1_hist_sum) x2_hist))))).
Definition gen_pcdelta_default_normalize : bool := true.
Definition gen_pcdelta_default_pseudocount : Q := ((0) # 1).
Definition gen_pcdelta_bins0_pc_args : list nat := [0; 1]%nat.
Definition gen_pcdelta_default_bins_range : (Z * Z) := ((0)%Z, (25)%Z).
Definition gen_pcdelta_self_source : (list N * list nat) := ([99;97;108;99;95;112;100;105;115;116;95;118;101;99;116;111;114]%N, [0]%nat).
Definition gen_pcdelta_cross_source : (list N * list nat) := ([99;97;108;99;95;99;100;105;115;116;95;109;97;116;114;105;120]%N, [0; 1]%nat).
Definition gen_pcdelta_downsampled : list nat := [0; 1]%nat.

(* 0 Levenshtein, 1 AlphaCdr3Levenshtein, 2 BetaCdr3Levenshtein, 3 Cdr3Levenshtein *)
Definition gen_default_metric (is_table has_cdr3a has_cdr3b : bool) : nat :=
  match is_table, has_cdr3a, has_cdr3b with
  | true, true, true => 3%nat
  | true, true, false => 1%nat
  | true, false, true => 2%nat
  | true, false, false => 0%nat
  | false, true, true => 0%nat
  | false, true, false => 0%nat
  | false, false, true => 0%nat
  | false, false, false => 0%nat
  end.

Definition gen_downsample_keep (n m : nat) : bool := Nat.leb n m.
Definition gen_downsample_size (n m : nat) : nat := m.
Definition gen_downsample_replace : bool := false.

Definition gen_background_bins (index : list Z) : list Z := (index ++ [last index 0 + (1)])%Z.

