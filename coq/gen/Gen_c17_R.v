(* GENERATED from pyrepseq/stats.py by translate/regen_c17.py on every check; do not edit. *)
From Coq Require Import List Reals.
From PV Require Import gen.Gen_stats_R.
Import ListNotations.
Open Scope R_scope.

Definition gen_mle_keep_R (c0 : list R) (cmin : R) : list R := filter (fun x_ => (if Rle_dec cmin x_ then true else false)) c0.

Definition gen_mle_simple_R (c0 : list R) (cmin : R) : R :=
  let c := gen_mle_keep_R c0 cmin in
  ((IZR (1)) + ((INR (length c)) / (sumRf (fun x_ => (ln (x_ / cmin))) c))).

Definition gen_mle_continuitycorrection_R (c0 : list R) (cmin : R) : R :=
  let c := gen_mle_keep_R c0 cmin in
  ((IZR (1)) + ((INR (length c)) / (sumRf (fun x_ => (ln (x_ / (cmin - (IZR (1) / IZR 2))))) c))).

Definition gen_powerlaw_sample_R (xmin alpha r : R) : R :=
  (IZR (Int_part (((xmin - (IZR (1) / IZR 2)) * (Rpower ((IZR (1)) - r) ((- (IZR (1))) / (alpha - (IZR (1)))))) + (IZR (1) / IZR 2)))).

