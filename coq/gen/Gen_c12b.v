(* GENERATED from pyrepseq/distance.py (isdist1, calculate_neighbor_numbers, nndist_hamming) by translate/regen_c12b.py on every check; do not edit. *)
From Coq Require Import List Arith Bool.
From PV Require Import lib.Str.
Import ListNotations.
(* default `neighborhood` arguments: 0 = levenshtein_neighbors, 1 = hamming_neighbors *)
Definition gen_isdist1_default_neighborhood : nat := 0.
Definition gen_neighbor_numbers_default_neighborhood : nat := 0.
Definition gen_nndist_default_maxdist : nat := 4.

Definition gen_isdist1 (neighborhood : str -> list str) (x : str) (reference : list str) : bool :=
  existsb (fun neighbor => memb str_eq_dec neighbor reference) (neighborhood x).

(* reference=None stands for set(seqs); a Python set is a duplicate-free list, `&` keeps the members of the left operand found in the right *)
Definition gen_calculate_neighbor_numbers (neighborhood : str -> list str) (seqs : list str) (reference : option (list str)) : list nat :=
  let reference := match reference with None => nodup str_eq_dec seqs | Some r => r end in
  map (fun seq => length (filter (fun y => memb str_eq_dec y reference) (nodup str_eq_dec (neighborhood seq)))) seqs.

(* None = NotImplementedError *)
Definition gen_nndist_hamming (hamming_neighbors : str -> list str) (isdist2 isdist3 : str -> list str -> bool)
    (seq : str) (reference : list str) (maxdist : nat) : option nat :=
  if Nat.ltb 4 maxdist then None
  else if memb str_eq_dec seq reference then Some 0
  else if ((Nat.eqb maxdist 1) || (gen_isdist1 hamming_neighbors seq reference)) then Some 1
  else if ((Nat.eqb maxdist 2) || (isdist2 seq reference)) then Some 2
  else if ((Nat.eqb maxdist 3) || (isdist3 seq reference)) then Some 3
  else Some 4.
