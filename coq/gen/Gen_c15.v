(* GENERATED from pyrepseq/clustering.py (graph_clustering: the glue around igraph) by translate/regen_c15.py on every check; do not edit. *)
From Coq Require Import List Arith Bool.
Import ListNotations.
(* columns [lo, hi) of the (i, j, dist) rows are the edge list handed to igraph *)
Definition gen_edge_columns : nat * nat := (0, 2).
Definition gen_edges_of (adjacency : list (nat * nat * nat)) : list (list nat) :=
  map (fun t_ => firstn (snd gen_edge_columns - fst gen_edge_columns) (skipn (fst gen_edge_columns) [fst (fst t_); snd (fst t_); snd t_])) adjacency.

(* the tail: cluster sizes by value_counts, clusters kept by size, rows of (node, cluster) kept in order *)
Definition gen_keep_size (size_ : nat) : bool := Nat.ltb 1 size_.
Definition gen_cluster_tail {L : Type} (nodes : list L) (membership : list nat) : list (L * nat) :=
  filter (fun p_ => gen_keep_size (count_occ Nat.eq_dec membership (snd p_))) (combine nodes membership).
