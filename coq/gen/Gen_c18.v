(* GENERATED from pyrepseq/io.py by translate/regen_c18.py on every check; do not edit. *)
From Coq Require Import List NArith ZArith.
From PV Require Import lib.PyObj.
Import ListNotations.

Definition gen_c18_facts : codefacts := {|
  aa_catches := [CTypeError];
  cdr3_conds := [CValidAA; CLenPos; (CItemEq (0)%Z [67]%N); (CItemIn (-1)%Z [[70]%N; [87]%N; [67]%N])];
  cdr3_catches := [CTypeError; CIndexError; CKeyError];
  merge_on_kw := true;
  std_cols := [([67;68;82;51;65]%N, 0%nat); ([84;82;65;86]%N, 1%nat); ([84;82;65;74]%N, 1%nat); ([77;72;67;65]%N, 2%nat); ([67;68;82;51;66]%N, 0%nat); ([84;82;66;86]%N, 1%nat); ([84;82;66;74]%N, 1%nat); ([77;72;67;66]%N, 2%nat); ([69;112;105;116;111;112;101]%N, 3%nat)]
|}.
