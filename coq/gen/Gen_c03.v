(* GENERATED from pyrepseq/nn.py (class SymdelDB: __init__, lookup) by translate/regen_c03.py on every check; do not edit. *)
From Coq Require Import List Arith Bool ListSet.
From PV Require Import lib.Str lib.PyDict lib.Combinations gen.Gen_c01.
Import ListNotations.
(* how lookup treats its custom_distance argument *)
Inductive cdist_arg := CNone | CHamming | CCallable.
Definition gen_is_custom (c : cdist_arg) : bool :=
  match c with CNone => false | CHamming => false | CCallable => true end.
(* threshold = max_custom_distance if is_custom else self_max_edits *)
Definition gen_threshold {D : Type} (is_custom : bool) (max_custom_distance self_max_edits : D) : D :=
  if is_custom then max_custom_distance else self_max_edits.
(* the distance function after the substitutions: 0 = _hamming_replacement, 1 = levenshtein, 2 = the caller's callable *)
Definition gen_distance_used (c : cdist_arg) : nat :=
  match c with CHamming => 0 | CNone => 1 | CCallable => 2 end.

Section GenSymdelDB.
Context {D : Type}.
(* iteration order of a Python set of strings / of ints: any duplicate-free listing of the elements *)
Variable iterS : list str -> list str.
Variable iterN : list nat -> list nat.
Variable custom_distance : str -> str -> D.
Variable levenshtein : str -> str -> nat.
Variable gtD : D -> D -> bool.       (* a > b on distance values *)

Definition gen_symdeldb_init (seqs : list str) (max_edits : nat) : list (str * list nat) :=
  fold_left (fun variant_dict '(i, seq) =>
    fold_left (fun variant_dict comb =>
      if dict_mem str_eqb comb variant_dict
      then dict_set str_eqb comb (unwrap [] (dict_get str_eqb comb variant_dict) ++ [i]) variant_dict
      else dict_set str_eqb comb [i] variant_dict)
      (iterS (gen_comb_gen seq max_edits)) variant_dict)
    (enumerate seqs) [].

Definition gen_symdeldb_lookup (self_seqs : list str) (self_max_edits : nat) (self_variant_dict : list (str * list nat))
    (is_custom : bool) (threshold : D) (seqs2 : list str) : list (nat * nat * D) :=
  fold_left (fun ans '(i, seq) =>
    let j_indices := fold_left (fun j_indices comb =>
        if negb (dict_mem str_eqb comb self_variant_dict) then j_indices
        else fold_left (fun j_indices j => set_add Nat.eq_dec j j_indices)
                       (unwrap [] (dict_get str_eqb comb self_variant_dict)) j_indices)
      (iterS (gen_comb_gen seq self_max_edits)) [] in
    fold_left (fun ans j =>
        let dist := custom_distance seq (nth j self_seqs []) in
        if (gtD dist threshold) then ans else
        if (is_custom && (Nat.ltb self_max_edits (levenshtein seq (nth j self_seqs [])))) then ans else
        ans ++ [(i, j, dist)])
      (iterN j_indices) ans)
    (enumerate seqs2) [].
End GenSymdelDB.

(* ---- symdel(), self mode (seqs2 is None) ---- *)
Definition gen_self_is_custom (c : cdist_arg) : bool :=
  match c with CNone => false | CHamming => false | CCallable => true end.
Definition gen_self_threshold {D : Type} (is_custom : bool) (max_custom_distance self_max_edits : D) : D :=
  if is_custom then max_custom_distance else self_max_edits.
Definition gen_self_distance_used (c : cdist_arg) : nat :=
  match c with CHamming => 0 | CNone => 1 | CCallable => 2 end.

Section GenSymdelSelf.
Context {D : Type}.
Variable iterS : list str -> list str.
Variable eqD : forall a b : D, {a = b} + {a <> b}.
Variable custom_distance : str -> str -> D.
Variable levenshtein : str -> str -> nat.
Variable gtD : D -> D -> bool.

Definition trip_dec : forall a b : nat * nat * D, {a = b} + {a <> b}.
Proof. decide equality. decide equality; apply Nat.eq_dec. Defined.

Definition gen_symdel_self (seqs : list str) (max_edits : nat) (is_custom : bool) (threshold : D) : list (nat * nat * D) :=
  let symdeldb_variant_dict := gen_symdeldb_init iterS seqs max_edits in
  fold_left (fun ans '(key, values) =>
      if Nat.eqb (length values) 1 then ans else
      fold_left (fun ans c =>
          match c with
          | [i; j] =>
          let seq_i := nth i seqs [] in
          let seq_j := nth j seqs [] in
          let dist := custom_distance seq_i seq_j in
          if (gtD dist threshold) then ans else
          if (is_custom && (Nat.ltb max_edits (levenshtein seq_i seq_j))) then ans else
          set_add trip_dec (j, i, dist) (set_add trip_dec (i, j, dist) ans)
          | _ => ans
          end)
        (combinations values 2) ans)
    symdeldb_variant_dict [].
End GenSymdelSelf.
