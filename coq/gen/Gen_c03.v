(* GENERATED from pyrepseq/nn.py (class SymdelDB: __init__, lookup) by translate/regen_c03.py on every check; do not edit. *)
From Coq Require Import List Arith Bool ListSet.
From PV Require Import lib.Str lib.PyDict gen.Gen_c01.
Import ListNotations.
(* how lookup treats its custom_distance argument *)
Inductive cdist_arg := CNone | CHamming | CCallable.
Definition gen_is_custom (c : cdist_arg) : bool :=
  match c with CNone => false | CHamming => false | CCallable => true end.
(* threshold = max_custom_distance if is_custom else self_max_edits *)
Definition gen_threshold {D : Type} (is_custom : bool) (max_custom_distance self_max_edits : D) : D :=
  if is_custom then max_custom_distance else self_max_edits.
(* the distance function after the substitutions: 0 = _hamming_replacement, 1 = levenshtein, 2 = the caller's callable *)
Definition gen_distance_used (c : cdist_arg) : nat :=
  match c with CHamming => 0 | CNone => 1 | CCallable => 2 end.

Section GenSymdelDB.
Context {D : Type}.
(* iteration order of a Python set of strings / of ints: any duplicate-free listing of the elements *)
Variable iterS : list str -> list str.
Variable iterN : list nat -> list nat.
Variable custom_distance : str -> str -> D.
Variable levenshtein : str -> str -> nat.
Variable gtD : D -> D -> bool.       (* a > b on distance values *)

Definition gen_symdeldb_init (seqs : list str) (max_edits : nat) : list (str * list nat) :=
  fold_left (fun variant_dict '(i, seq) =>
    fold_left (fun variant_dict comb =>
      if dict_mem str_eqb comb variant_dict
      then dict_set str_eqb comb (unwrap [] (dict_get str_eqb comb variant_dict) ++ [i]) variant_dict
      else dict_set str_eqb comb [i] variant_dict)
      (iterS (gen_comb_gen seq max_edits)) variant_dict)
    (enumerate seqs) [].

Definition gen_symdeldb_lookup (self_seqs : list str) (self_max_edits : nat) (self_variant_dict : list (str * list nat))
    (is_custom : bool) (threshold : D) (seqs2 : list str) : list (nat * nat * D) :=
  fold_left (fun ans '(i, seq) =>
    let j_indices := fold_left (fun j_indices comb =>
        if negb (dict_mem str_eqb comb self_variant_dict) then j_indices
        else fold_left (fun j_indices j => set_add Nat.eq_dec j j_indices)
                       (unwrap [] (dict_get str_eqb comb self_variant_dict)) j_indices)
      (iterS (gen_comb_gen seq self_max_edits)) [] in
    fold_left (fun ans j =>
        let dist := custom_distance seq (nth j self_seqs []) in
        if (gtD dist threshold) then ans else
        if (is_custom && (Nat.ltb self_max_edits (levenshtein seq (nth j self_seqs [])))) then ans else
        ans ++ [(i, j, dist)])
      (iterN j_indices) ans)
    (enumerate seqs2) [].
End GenSymdelDB.
