(* GENERATED from pyrepseq/**/*.py by translate/regen_c20.py on every check; do not edit. *)
From Coq Require Import List String Bool.
From PV Require Import model.Effects.
Import ListNotations.
Open Scope string_scope.
Open Scope list_scope.

Definition ent_0 : entry := mk_entry "clustering.graph_clustering" true false
  ["adjacency_matrix"; "nodes"; "clustering"; "kwargs"] []
  [] [] []
  []
  ESkip.
Definition ent_1 : entry := mk_entry "distance._flatten_list" false false
  ["inlist"] []
  [] [] []
  []
  ESkip.
Definition ent_2 : entry := mk_entry "distance._isdist2_hamming" false false
  ["x"; "reference"] []
  [] [] []
  []
  (ELoop (ESeq (ERead "io.aminoacids") (ELoop (ERead "io.aminoacids")))).
Definition ent_3 : entry := mk_entry "distance._isdist3_hamming" false false
  ["x"; "reference"] []
  [] [] []
  []
  (ELoop (ESeq (ERead "io.aminoacids") (ELoop (ESeq (ERead "io.aminoacids") (ELoop (ERead "io.aminoacids")))))).
Definition ent_4 : entry := mk_entry "distance.calculate_neighbor_numbers" true false
  ["seqs"; "reference"; "neighborhood"] ["neighborhood"]
  [] [] []
  []
  ESkip.
Definition ent_5 : entry := mk_entry "distance.cdist" true false
  ["stringsA"; "stringsB"; "metric"; "dtype"; "kwargs"] ["dtype"]
  [] [] []
  []
  ESkip.
Definition ent_6 : entry := mk_entry "distance.downsample" true true
  ["seqs"; "maxseqs"] []
  [] [] []
  []
  ESkip.
Definition ent_7 : entry := mk_entry "distance.find_neighbor_pairs" true false
  ["seqs"; "neighborhood"] ["neighborhood"]
  [] [] []
  []
  ESkip.
Definition ent_8 : entry := mk_entry "distance.find_neighbor_pairs_index" true false
  ["seqs"; "neighborhood"] ["neighborhood"]
  [] [] []
  []
  ESkip.
Definition ent_9 : entry := mk_entry "distance.get_default_metric_for_input_data" true false
  ["input_data"] []
  [] [] []
  []
  ESkip.
Definition ent_10 : entry := mk_entry "distance.hamming_neighbors" true false
  ["x"; "alphabet"; "variable_positions"] ["alphabet"]
  [] [] []
  []
  ESkip.
Definition ent_11 : entry := mk_entry "distance.hierarchical_clustering" true false
  ["seqs"; "metric"; "linkage_kws"; "cluster_kws"] ["linkage_kws"; "cluster_kws"]
  [] [] []
  []
  (ELoop (ERead "metric.tcr_metric.tcrdist.tcrdist_metric.tcrdist_interface")).
Definition ent_12 : entry := mk_entry "distance.isdist1" true false
  ["x"; "reference"; "neighborhood"] ["neighborhood"]
  [] [] []
  []
  ESkip.
Definition ent_13 : entry := mk_entry "distance.levenshtein_neighbors" true false
  ["x"; "alphabet"] ["alphabet"]
  [] [] []
  []
  ESkip.
Definition ent_14 : entry := mk_entry "distance.load_pcDelta_background" true false
  ["return_bins"] []
  [] [] []
  []
  ESkip.
Definition ent_15 : entry := mk_entry "distance.next_nearest_neighbors" true false
  ["x"; "neighborhood"; "maxdistance"] []
  [] [] []
  []
  ESkip.
Definition ent_16 : entry := mk_entry "distance.nndist_hamming" true false
  ["seq"; "reference"; "maxdist"] []
  [] [] []
  []
  (ESeq (EAlt (ELoop (ESeq (ERead "io.aminoacids") (ELoop (ERead "io.aminoacids")))) ESkip) (EAlt (ELoop (ESeq (ERead "io.aminoacids") (ELoop (ESeq (ERead "io.aminoacids") (ELoop (ERead "io.aminoacids")))))) ESkip)).
Definition ent_17 : entry := mk_entry "distance.pcDelta" true true
  ["seqs"; "seqs2"; "metric"; "bins"; "normalize"; "pseudocount"; "maxseqs"] []
  [] [] []
  []
  (ELoop (ERead "metric.tcr_metric.tcrdist.tcrdist_metric.tcrdist_interface")).
Definition ent_18 : entry := mk_entry "distance.pcDelta_grouped" true true
  ["df"; "by"; "seq_columns"; "kwargs"] []
  [] [] []
  []
  (ELoop (ERead "metric.tcr_metric.tcrdist.tcrdist_metric.tcrdist_interface")).
Definition ent_19 : entry := mk_entry "distance.pcDelta_grouped_cross" true true
  ["df"; "by"; "seq_columns"; "condensed"; "kwargs"] []
  [] [] []
  []
  (ELoop (ERead "metric.tcr_metric.tcrdist.tcrdist_metric.tcrdist_interface")).
Definition ent_20 : entry := mk_entry "distance.pdist" true false
  ["strings"; "metric"; "dtype"; "kwargs"] ["dtype"]
  [] [] []
  []
  ESkip.
Definition ent_21 : entry := mk_entry "entropy.renyi2_entropy" true false
  ["df"; "features"; "by"; "base"; "kwargs"] []
  [] [] []
  []
  ESkip.
Definition ent_22 : entry := mk_entry "entropy.stdrenyi2_entropy" true false
  ["df"; "features"; "base"; "kwargs"] []
  [] [] []
  []
  ESkip.
Definition ent_23 : entry := mk_entry "io.isvalidaa" true false
  ["string"] []
  [] [] []
  []
  (ELoop (ERead "io._aminoacids_set")).
Definition ent_24 : entry := mk_entry "io.isvalidcdr3" true false
  ["string"] []
  [] [] []
  []
  (ELoop (ERead "io._aminoacids_set")).
Definition ent_25 : entry := mk_entry "io.multimerge" true false
  ["dfs"; "on"; "suffixes"; "kwargs"] []
  [] [] []
  []
  ESkip.
Definition ent_26 : entry := mk_entry "io.standardize_dataframe" true false
  ["df"; "col_mapper"; "standardize"; "species"; "tcr_enforce_functional"; "tcr_precision"; "mhc_precision"; "strict_cdr3_standardization"; "suppress_warnings"; "df_old"] []
  [] [] []
  []
  ESkip.
Definition ent_27 : entry := mk_entry "metric.levenshtein.Levenshtein.__init__" true false
  ["self"] []
  [] [] []
  []
  ESkip.
Definition ent_28 : entry := mk_entry "metric.levenshtein.Levenshtein.calc_cdist_matrix" true false
  ["self"; "anchors"; "comparisons"] []
  [] [] []
  []
  (ELoop (ERead "metric.tcr_metric.tcrdist.tcrdist_metric.tcrdist_interface")).
Definition ent_29 : entry := mk_entry "metric.levenshtein.Levenshtein.calc_pdist_vector" true false
  ["self"; "instances"] []
  [] [] []
  []
  (ELoop (ERead "metric.tcr_metric.tcrdist.tcrdist_metric.tcrdist_interface")).
Definition ent_30 : entry := mk_entry "metric.levenshtein.WeightedLevenshtein.__init__" true false
  ["self"; "insertion_weight"; "deletion_weight"; "substitution_weight"] []
  [] [] []
  []
  ESkip.
Definition ent_31 : entry := mk_entry "metric.levenshtein.WeightedLevenshtein.calc_cdist_matrix" true false
  ["self"; "anchors"; "comparisons"] []
  [] [] []
  []
  ESkip.
Definition ent_32 : entry := mk_entry "metric.levenshtein.WeightedLevenshtein.calc_pdist_vector" true false
  ["self"; "instances"] []
  [] [] []
  []
  (ELoop (ERead "metric.tcr_metric.tcrdist.tcrdist_metric.tcrdist_interface")).
Definition ent_33 : entry := mk_entry "metric.metric.Metric.calc_cdist_matrix" true false
  ["self"; "anchors"; "comparisons"] []
  [] [] []
  []
  ESkip.
Definition ent_34 : entry := mk_entry "metric.metric.Metric.calc_pdist_vector" true false
  ["self"; "instances"] []
  [] [] []
  []
  ESkip.
Definition ent_35 : entry := mk_entry "metric.metric.Metric.name" true false
  ["self"] []
  [] [] []
  []
  ESkip.
Definition ent_36 : entry := mk_entry "metric.tcr_metric.tcr_levenshtein.AlphaCdr3Levenshtein.__init__" true false
  ["self"; "insertion_weight"; "deletion_weight"; "substitution_weight"] []
  [] [] []
  []
  ESkip.
Definition ent_37 : entry := mk_entry "metric.tcr_metric.tcr_levenshtein.AlphaCdrLevenshtein.__init__" true false
  ["self"; "insertion_weight"; "deletion_weight"; "substitution_weight"; "cdr1_weight"; "cdr2_weight"; "cdr3_weight"] []
  [] [] []
  []
  ESkip.
Definition ent_38 : entry := mk_entry "metric.tcr_metric.tcr_levenshtein.BetaCdr3Levenshtein.__init__" true false
  ["self"; "insertion_weight"; "deletion_weight"; "substitution_weight"] []
  [] [] []
  []
  ESkip.
Definition ent_39 : entry := mk_entry "metric.tcr_metric.tcr_levenshtein.BetaCdrLevenshtein.__init__" true false
  ["self"; "insertion_weight"; "deletion_weight"; "substitution_weight"; "cdr1_weight"; "cdr2_weight"; "cdr3_weight"] []
  [] [] []
  []
  ESkip.
Definition ent_40 : entry := mk_entry "metric.tcr_metric.tcr_levenshtein.Cdr3Levenshtein.__init__" true false
  ["self"; "insertion_weight"; "deletion_weight"; "substitution_weight"; "alpha_weight"; "beta_weight"] []
  [] [] []
  []
  ESkip.
Definition ent_41 : entry := mk_entry "metric.tcr_metric.tcr_levenshtein.CdrWeights.__init__" true false
  ["self"; "cdr1_weight"; "cdr2_weight"; "cdr3_weight"] []
  [] [] []
  []
  ESkip.
Definition ent_42 : entry := mk_entry "metric.tcr_metric.tcr_levenshtein.ChainWeights.__init__" true false
  ["self"; "alpha_weight"; "beta_weight"] []
  [] [] []
  []
  ESkip.
Definition ent_43 : entry := mk_entry "metric.tcr_metric.tcr_levenshtein.TcrLevenshtein.__init__" true false
  ["self"; "insertion_weight"; "deletion_weight"; "substitution_weight"; "alpha_weight"; "beta_weight"; "cdr1_weight"; "cdr2_weight"; "cdr3_weight"] []
  [] [] []
  []
  ESkip.
Definition ent_44 : entry := mk_entry "metric.tcr_metric.tcr_levenshtein.TcrLevenshtein._calc_cdist_matrix_for_column" false false
  ["self"; "anchors"; "comparisons"; "column"] []
  [] [] []
  []
  ESkip.
Definition ent_45 : entry := mk_entry "metric.tcr_metric.tcr_levenshtein.TcrLevenshtein._cdr_scope" false false
  ["self"] []
  [] [] []
  []
  ESkip.
Definition ent_46 : entry := mk_entry "metric.tcr_metric.tcr_levenshtein.TcrLevenshtein._chain_scope" false false
  ["self"] []
  [] [] []
  []
  ESkip.
Definition ent_47 : entry := mk_entry "metric.tcr_metric.tcr_levenshtein.TcrLevenshtein._expand_v_gene_cdrs" false false
  ["self"; "df"] []
  [] [] []
  []
  ESkip.
Definition ent_48 : entry := mk_entry "metric.tcr_metric.tcr_levenshtein.TcrLevenshtein._get_cdr1_from_v_gene_if_possible" false false
  ["v_gene"; "cdr_loop"] []
  [] [] []
  []
  ESkip.
Definition ent_49 : entry := mk_entry "metric.tcr_metric.tcr_levenshtein.TcrLevenshtein._get_cdrs_from_v_genes" false false
  ["self"; "v_genes"] []
  [] [] []
  []
  ESkip.
Definition ent_50 : entry := mk_entry "metric.tcr_metric.tcr_levenshtein.TcrLevenshtein._get_columns_to_compare" false false
  ["self"] []
  [] [] []
  []
  ESkip.
Definition ent_51 : entry := mk_entry "metric.tcr_metric.tcr_levenshtein.TcrLevenshtein.calc_cdist_matrix" true false
  ["self"; "anchors"; "comparisons"] []
  [] [] []
  []
  (ELoop (ERead "metric.tcr_metric.tcrdist.tcrdist_metric.tcrdist_interface")).
Definition ent_52 : entry := mk_entry "metric.tcr_metric.tcr_levenshtein.TcrLevenshtein.calc_pdist_vector" true false
  ["self"; "instances"] []
  [] [] []
  []
  (ELoop (ERead "metric.tcr_metric.tcrdist.tcrdist_metric.tcrdist_interface")).
Definition ent_53 : entry := mk_entry "metric.tcr_metric.tcr_metric.TcrMetric.calc_cdist_matrix" true false
  ["self"; "anchors"; "comparisons"] []
  [] [] []
  []
  ESkip.
Definition ent_54 : entry := mk_entry "metric.tcr_metric.tcr_metric.TcrMetric.calc_pdist_vector" true false
  ["self"; "instances"] []
  [] [] []
  []
  ESkip.
Definition ent_55 : entry := mk_entry "metric.tcr_metric.tcr_metric.is_in_standard_format" true false
  ["input"] []
  [] [] []
  []
  ESkip.
Definition ent_56 : entry := mk_entry "metric.tcr_metric.tcrdist.simplified_tcrdist_interface.TcrdistInterface._calc_cdist_matrices" false false
  ["self"; "anchor_tcrs"; "comparison_tcrs"; "chain"] []
  [] [] []
  []
  ESkip.
Definition ent_57 : entry := mk_entry "metric.tcr_metric.tcrdist.simplified_tcrdist_interface.TcrdistInterface._convert_df_to_tcrdist_form" false false
  ["self"; "df"] []
  [] [] []
  []
  ESkip.
Definition ent_58 : entry := mk_entry "metric.tcr_metric.tcrdist.simplified_tcrdist_interface.TcrdistInterface._get_pws_kwargs" false false
  ["self"; "chain"] []
  [] [] []
  []
  ESkip.
Definition ent_59 : entry := mk_entry "metric.tcr_metric.tcrdist.simplified_tcrdist_interface.TcrdistInterface._infer_cdrs_from_v_gene" false false
  ["self"; "cell_df"; "chain"; "organism"; "imgt_aligned"] []
  [] [] []
  []
  ESkip.
Definition ent_60 : entry := mk_entry "metric.tcr_metric.tcrdist.simplified_tcrdist_interface.TcrdistInterface._map_gene_to_reference_seq2" false false
  ["self"; "organism"; "gene"; "cdr"; "attr"] []
  [] [] []
  []
  ESkip.
Definition ent_61 : entry := mk_entry "metric.tcr_metric.tcrdist.simplified_tcrdist_interface.TcrdistInterface.calc_alpha_cdist_matrices" true false
  ["self"; "anchor_tcrs"; "comparison_tcrs"] []
  [] [] []
  []
  ESkip.
Definition ent_62 : entry := mk_entry "metric.tcr_metric.tcrdist.simplified_tcrdist_interface.TcrdistInterface.calc_beta_cdist_matrices" true false
  ["self"; "anchor_tcrs"; "comparison_tcrs"] []
  [] [] []
  []
  ESkip.
Definition ent_63 : entry := mk_entry "metric.tcr_metric.tcrdist.tcrdist_metric.AbstractTcrdist._calc_alpha_cdist" false false
  ["self"; "anchors"; "comparisons"] []
  [] [] []
  []
  (ERead "metric.tcr_metric.tcrdist.tcrdist_metric.tcrdist_interface").
Definition ent_64 : entry := mk_entry "metric.tcr_metric.tcrdist.tcrdist_metric.AbstractTcrdist._calc_beta_cdist" false false
  ["self"; "anchors"; "comparisons"] []
  [] [] []
  []
  (ERead "metric.tcr_metric.tcrdist.tcrdist_metric.tcrdist_interface").
Definition ent_65 : entry := mk_entry "metric.tcr_metric.tcrdist.tcrdist_metric.AbstractTcrdist._chains_to_compare" false false
  ["self"] []
  [] [] []
  []
  ESkip.
Definition ent_66 : entry := mk_entry "metric.tcr_metric.tcrdist.tcrdist_metric.AbstractTcrdist._tcrdist_type" false false
  ["self"] []
  [] [] []
  []
  ESkip.
Definition ent_67 : entry := mk_entry "metric.tcr_metric.tcrdist.tcrdist_metric.AbstractTcrdist.calc_cdist_matrix" true false
  ["self"; "anchors"; "comparisons"] []
  [] [] []
  []
  (ELoop (ERead "metric.tcr_metric.tcrdist.tcrdist_metric.tcrdist_interface")).
Definition ent_68 : entry := mk_entry "metric.tcr_metric.tcrdist.tcrdist_metric.AbstractTcrdist.calc_pdist_vector" true false
  ["self"; "instances"] []
  [] [] []
  []
  (ELoop (ERead "metric.tcr_metric.tcrdist.tcrdist_metric.tcrdist_interface")).
Definition ent_69 : entry := mk_entry "nn.LookupDB.__init__" true false
  ["self"; "seqs"] []
  [] [] []
  []
  ESkip.
Definition ent_70 : entry := mk_entry "nn.LookupDB.lookup" true false
  ["self"; "seqs2"; "max_edits"; "pdist_mode"; "custom_distance"; "max_custom_distance"; "output_type"; "progress"] ["max_custom_distance"]
  [] [] []
  []
  ESkip.
Definition ent_71 : entry := mk_entry "nn.SymdelDB.__init__" true false
  ["self"; "seqs"; "max_edits"] []
  [] [] []
  []
  ESkip.
Definition ent_72 : entry := mk_entry "nn.SymdelDB.lookup" true false
  ["self"; "seqs2"; "custom_distance"; "max_custom_distance"; "output_type"; "progress"] ["max_custom_distance"]
  [] [] []
  []
  ESkip.
Definition ent_73 : entry := mk_entry "nn._cal_custom_dist" false false
  ["_args"] []
  [] [] []
  []
  (ERead "nn._cal_params").
Definition ent_74 : entry := mk_entry "nn._cal_levenshtein" false false
  ["_args"] []
  [] [] []
  []
  (ERead "nn._cal_params").
Definition ent_75 : entry := mk_entry "nn._check_common_input" false false
  ["seqs"; "max_edits"; "max_returns"; "n_cpu"; "custom_distance"; "max_cust_dist"; "output_type"; "seqs2"] []
  [] [] []
  []
  ESkip.
Definition ent_76 : entry := mk_entry "nn._comb_gen" false false
  ["seq"; "max_edits"] []
  [] [] []
  []
  ESkip.
Definition ent_77 : entry := mk_entry "nn._flatten_array" false false
  ["nested_array"] []
  [] [] []
  []
  ESkip.
Definition ent_78 : entry := mk_entry "nn._generate_neighbors" false false
  ["query"; "max_edits"; "is_hamming"] []
  [] [] []
  []
  ESkip.
Definition ent_79 : entry := mk_entry "nn._hamming_replacement" false false
  ["seq_a"; "seq_b"] []
  [] [] []
  []
  ESkip.
Definition ent_80 : entry := mk_entry "nn._histogram_encode" false false
  ["cdr3"; "compression"] []
  [] [] []
  []
  (ESeq (ERead "io.aminoacids") (ERead "io.aminoacids")).
Definition ent_81 : entry := mk_entry "nn._kdtree_leven" false false
  ["seqs"; "max_edits"; "max_returns"; "n_cpu"; "custom_distance"; "max_custom_distance"; "output_type"; "compression"] ["max_custom_distance"]
  [] [] []
  []
  (ESeq (ELoop (ESeq (ERead "io.aminoacids") (ERead "io.aminoacids"))) (ESeq (EWrite "nn._cal_params") (ELoop (EAlt (ERead "nn._cal_params") (EAlt (ERead "nn._cal_params") ESkip))))).
Definition ent_82 : entry := mk_entry "nn._lookup" false false
  ["df"; "row_labels"; "col_labels"] []
  [] [] []
  []
  ESkip.
Definition ent_83 : entry := mk_entry "nn._make_output" false false
  ["triplets"; "output_type"; "seqs"; "seqs2"] []
  [] [] []
  []
  ESkip.
Definition ent_84 : entry := mk_entry "nn._to_len_bucket" false false
  ["seqs"] []
  [] [] []
  []
  ESkip.
Definition ent_85 : entry := mk_entry "nn._to_triplets" false false
  ["seqs"; "y_indices"; "max_edits"; "limit"; "n_cpu"; "custom_distance"; "max_cust_dist"] []
  [] [] []
  []
  (ESeq (EWrite "nn._cal_params") (ELoop (EAlt (ERead "nn._cal_params") (EAlt (ERead "nn._cal_params") ESkip)))).
Definition ent_86 : entry := mk_entry "nn.hash_based" true false
  ["seqs"; "max_edits"; "max_returns"; "n_cpu"; "custom_distance"; "max_custom_distance"; "output_type"; "progress"] ["max_custom_distance"]
  [] [] []
  []
  ESkip.
Definition ent_87 : entry := mk_entry "nn.kdtree" true false
  ["seqs"; "max_edits"; "max_returns"; "n_cpu"; "custom_distance"; "max_custom_distance"; "output_type"; "compression"] ["max_custom_distance"]
  [] [] []
  []
  (ESeq (EAlt (ELoop (ESeq (ELoop (ESeq (ERead "io.aminoacids") (ERead "io.aminoacids"))) (ESeq (EWrite "nn._cal_params") (ELoop (EAlt (ERead "nn._cal_params") (EAlt (ERead "nn._cal_params") ESkip)))))) ESkip) (ESeq (ELoop (ESeq (ERead "io.aminoacids") (ERead "io.aminoacids"))) (ESeq (EWrite "nn._cal_params") (ELoop (EAlt (ERead "nn._cal_params") (EAlt (ERead "nn._cal_params") ESkip)))))).
Definition ent_88 : entry := mk_entry "nn.nearest_neighbor" true false
  ["seqs"; "max_edits"; "max_returns"; "n_cpu"; "custom_distance"; "max_custom_distance"; "output_type"; "seqs2"] ["max_custom_distance"]
  [] [] []
  []
  ESkip.
Definition ent_89 : entry := mk_entry "nn.nearest_neighbor_tcrdist" true false
  ["df"; "chain"; "max_edits"; "edit_on_trimmed"; "max_tcrdist"; "tcrdist_kwargs"; "kwargs"] ["tcrdist_kwargs"]
  [] [] []
  []
  ESkip.
Definition ent_90 : entry := mk_entry "nn.symdel" true false
  ["seqs"; "max_edits"; "max_returns"; "n_cpu"; "custom_distance"; "max_custom_distance"; "output_type"; "seqs2"; "progress"] ["max_custom_distance"]
  [] [] []
  []
  ESkip.
Definition ent_91 : entry := mk_entry "plotting.ClusterGridSplit.__init__" true false
  ["self"; "data_lower"; "data_upper"; "kws"] []
  [] [] []
  []
  ESkip.
Definition ent_92 : entry := mk_entry "plotting.ClusterGridSplit.plot_matrix" true false
  ["self"; "cbar_kws"; "xind"; "yind"; "kws"] []
  [] [] []
  []
  ESkip.
Definition ent_93 : entry := mk_entry "plotting.HandlerTupleOffset.__init__" true false
  ["self"; "horizontal"; "kwargs"] []
  [] [] []
  []
  ESkip.
Definition ent_94 : entry := mk_entry "plotting.HandlerTupleOffset.create_artists" true false
  ["self"; "legend"; "orig_handle"; "xdescent"; "ydescent"; "width"; "height"; "fontsize"; "trans"] []
  [] [] []
  []
  ESkip.
Definition ent_95 : entry := mk_entry "plotting.clustermap_split" true false
  ["data_lower"; "data_upper"; "pivot_kws"; "method"; "metric"; "z_score"; "standard_scale"; "figsize"; "cbar_kws"; "row_cluster"; "col_cluster"; "row_linkage"; "col_linkage"; "row_colors"; "col_colors"; "mask"; "dendrogram_ratio"; "colors_ratio"; "cbar_pos"; "tree_kws"; "kws"] []
  [] [] []
  []
  ESkip.
Definition ent_96 : entry := mk_entry "plotting.density_scatter" true false
  ["x"; "y"; "ax"; "discrete"; "sort"; "bins"; "trans"; "cbar"; "kwargs"] []
  [] [] []
  []
  ESkip.
Definition ent_97 : entry := mk_entry "plotting.label_axes" true false
  ["fig_or_axes"; "labels"; "labelstyle"; "xy"; "xycoords"; "kwargs"] ["labels"]
  [] [] []
  []
  ESkip.
Definition ent_98 : entry := mk_entry "plotting.labels_to_colors_hls" true true
  ["labels"; "palette_kws"; "min_count"] ["palette_kws"]
  [] [] []
  []
  ESkip.
Definition ent_99 : entry := mk_entry "plotting.labels_to_colors_tableau" true true
  ["labels"; "min_count"] []
  [] [] []
  []
  ESkip.
Definition ent_100 : entry := mk_entry "plotting.rankfrequency" true false
  ["data"; "ax"; "normalize_x"; "normalize_y"; "transform_x"; "transform_y"; "log_x"; "log_y"; "scalex"; "scaley"; "kwargs"] []
  [] [] []
  []
  ESkip.
Definition ent_101 : entry := mk_entry "plotting.seqlogos" true false
  ["seqs"; "ax"; "kwargs"] []
  [] [] []
  []
  ESkip.
Definition ent_102 : entry := mk_entry "plotting.seqlogos_vj" true false
  ["df"; "cdr3_column"; "v_column"; "j_column"; "axes"; "kwargs"] []
  [] [] []
  []
  ESkip.
Definition ent_103 : entry := mk_entry "plotting.similarity_clustermap" true true
  ["df"; "alpha_column"; "beta_column"; "norm"; "bounds"; "linkage_kws"; "cluster_kws"; "cbar_kws"; "meta_columns"; "meta_to_colors"; "kws"] ["bounds"; "linkage_kws"; "cluster_kws"; "cbar_kws"]
  [] [] []
  []
  (ELoop (ERead "metric.tcr_metric.tcrdist.tcrdist_metric.tcrdist_interface")).
Definition ent_104 : entry := mk_entry "stats._discrete_loglikelihood" false false
  ["x"; "alpha"; "xmin"] []
  [] [] []
  []
  ESkip.
Definition ent_105 : entry := mk_entry "stats.chao1" true false
  ["counts"] []
  [] [] []
  []
  ESkip.
Definition ent_106 : entry := mk_entry "stats.chao2" true false
  ["counts"; "m"] []
  [] [] []
  []
  ESkip.
Definition ent_107 : entry := mk_entry "stats.jaccard_index" true false
  ["A"; "B"] []
  [] [] []
  []
  ESkip.
Definition ent_108 : entry := mk_entry "stats.overlap" true false
  ["A"; "B"] []
  [] [] []
  []
  ESkip.
Definition ent_109 : entry := mk_entry "stats.overlap_coefficient" true false
  ["A"; "B"] []
  [] [] []
  []
  ESkip.
Definition ent_110 : entry := mk_entry "stats.pc" true false
  ["array"; "array2"] []
  [] [] []
  []
  ESkip.
Definition ent_111 : entry := mk_entry "stats.pc_conditional" true false
  ["df"; "by"; "on"; "group_weights"] []
  [] [] []
  []
  ESkip.
Definition ent_112 : entry := mk_entry "stats.pc_grouped_cross" true false
  ["df"; "by"; "on"] []
  [] [] []
  []
  ESkip.
Definition ent_113 : entry := mk_entry "stats.pc_joint" true false
  ["df"; "on"; "df_2"; "gap_token"] []
  [] [] []
  []
  ESkip.
Definition ent_114 : entry := mk_entry "stats.pc_n" true false
  ["n"] []
  [] [] []
  []
  ESkip.
Definition ent_115 : entry := mk_entry "stats.powerlaw_mle_alpha" true false
  ["c"; "cmin"; "method"; "kwargs"] []
  [] [] []
  []
  ESkip.
Definition ent_116 : entry := mk_entry "stats.powerlaw_sample" true true
  ["size"; "xmin"; "alpha"] []
  [] [] []
  []
  ESkip.
Definition ent_117 : entry := mk_entry "stats.stdpc" true false
  ["array"] []
  [] [] []
  []
  ESkip.
Definition ent_118 : entry := mk_entry "stats.stdpc_joint" true false
  ["df"; "on"; "gap_token"] []
  [] [] []
  []
  ESkip.
Definition ent_119 : entry := mk_entry "stats.stdpc_n" true false
  ["n"] []
  [] [] []
  []
  ESkip.
Definition ent_120 : entry := mk_entry "stats.subsample" true true
  ["counts"; "n"] []
  [] [] []
  []
  ESkip.
Definition ent_121 : entry := mk_entry "stats.var_chao1" true false
  ["counts"] []
  [] [] []
  []
  ESkip.
Definition ent_122 : entry := mk_entry "stats.var_chao2" true false
  ["counts"; "m"] []
  [] [] []
  []
  ESkip.
Definition ent_123 : entry := mk_entry "stats.varpc_n" true false
  ["n"] []
  [] [] []
  []
  ESkip.
Definition ent_124 : entry := mk_entry "util.align_seqs" true false
  ["seqs"; "debug"] []
  [] [] []
  []
  ESkip.
Definition ent_125 : entry := mk_entry "util.convert_tuple_to_dataframe_if_necessary" true false
  ["seqs"] []
  [] [] []
  []
  ESkip.
Definition ent_126 : entry := mk_entry "util.ensure_numpy" true false
  ["arr_like"] []
  [] [] []
  []
  ESkip.
Definition ent_127 : entry := mk_entry "util.seqs_to_consensus" true false
  ["seqs"; "align"] []
  [] [] []
  []
  ESkip.
Definition ent_128 : entry := mk_entry "util.seqs_to_regex" true false
  ["seqs"; "align"] []
  [] [] []
  []
  ESkip.

Definition gen_table : table :=
  [ent_0;
   ent_1;
   ent_2;
   ent_3;
   ent_4;
   ent_5;
   ent_6;
   ent_7;
   ent_8;
   ent_9;
   ent_10;
   ent_11;
   ent_12;
   ent_13;
   ent_14;
   ent_15;
   ent_16;
   ent_17;
   ent_18;
   ent_19;
   ent_20;
   ent_21;
   ent_22;
   ent_23;
   ent_24;
   ent_25;
   ent_26;
   ent_27;
   ent_28;
   ent_29;
   ent_30;
   ent_31;
   ent_32;
   ent_33;
   ent_34;
   ent_35;
   ent_36;
   ent_37;
   ent_38;
   ent_39;
   ent_40;
   ent_41;
   ent_42;
   ent_43;
   ent_44;
   ent_45;
   ent_46;
   ent_47;
   ent_48;
   ent_49;
   ent_50;
   ent_51;
   ent_52;
   ent_53;
   ent_54;
   ent_55;
   ent_56;
   ent_57;
   ent_58;
   ent_59;
   ent_60;
   ent_61;
   ent_62;
   ent_63;
   ent_64;
   ent_65;
   ent_66;
   ent_67;
   ent_68;
   ent_69;
   ent_70;
   ent_71;
   ent_72;
   ent_73;
   ent_74;
   ent_75;
   ent_76;
   ent_77;
   ent_78;
   ent_79;
   ent_80;
   ent_81;
   ent_82;
   ent_83;
   ent_84;
   ent_85;
   ent_86;
   ent_87;
   ent_88;
   ent_89;
   ent_90;
   ent_91;
   ent_92;
   ent_93;
   ent_94;
   ent_95;
   ent_96;
   ent_97;
   ent_98;
   ent_99;
   ent_100;
   ent_101;
   ent_102;
   ent_103;
   ent_104;
   ent_105;
   ent_106;
   ent_107;
   ent_108;
   ent_109;
   ent_110;
   ent_111;
   ent_112;
   ent_113;
   ent_114;
   ent_115;
   ent_116;
   ent_117;
   ent_118;
   ent_119;
   ent_120;
   ent_121;
   ent_122;
   ent_123;
   ent_124;
   ent_125;
   ent_126;
   ent_127;
   ent_128].
