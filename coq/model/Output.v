(* C10: output formats of the search functions (nn._make_output) and argument checking
   (nn._check_common_input).  Definitions only. *)
From Coq Require Import List ZArith Bool Arith.
Import ListNotations.

(* scipy.sparse.coo_matrix((data, (row, col)), shape).toarray(): entries with equal coordinates are ADDED;
   a triplet (q, r, d) is stored at row r, column q *)
Definition entry (trip : list (nat * nat * Z)) (r q : nat) : Z :=
  fold_right Z.add 0%Z
    (map (fun t => if Nat.eqb (fst (fst t)) q && Nat.eqb (snd (fst t)) r then snd t else 0%Z) trip).
Definition coo_dense (nrows ncols : nat) (trip : list (nat * nat * Z)) : list (list Z) :=
  map (fun r => map (fun q => entry trip r q) (seq 0 ncols)) (seq 0 nrows).
(* shape: (len(seqs), len(seqs2)), square when no second collection is given *)
Definition out_shape (len_seqs : nat) (len_seqs2 : option nat) : nat * nat :=
  (len_seqs, match len_seqs2 with Some m => m | None => len_seqs end).

(* abstract view of the arguments of a search call, as far as _check_common_input looks at them *)
Record call_args := {
  a_len : nat;                 (* len(seqs) *)
  a_seqs_strings : bool;       (* every element is a str / np.str_ *)
  a_max_edits_int : bool;  a_max_edits : Z;
  a_max_returns : option (bool * Z);   (* None, or (is an int, value) *)
  a_n_cpu_int : bool;  a_n_cpu : Z;
  a_custom_ok : bool;          (* None / 'hamming' / a callable with d(first, first) = 0 *)
  a_maxc_number : bool;  a_maxc_nonneg : bool;
  a_output_known : bool;       (* 'triplets' | 'coo_matrix' | 'ndarray' *)
  a_seqs2 : option bool        (* None, or: every element of seqs2 is a string *)
}.
Definition check_input (a : call_args) : bool :=
  Nat.ltb 0 (a_len a) && a_seqs_strings a &&
  (a_max_edits_int a && Z.ltb 0 (a_max_edits a)) &&
  (match a_max_returns a with None => true | Some (isint, v) => isint && Z.ltb 0 v end) &&
  (a_n_cpu_int a && Z.ltb 0 (a_n_cpu a)) &&
  a_custom_ok a && (a_maxc_number a && a_maxc_nonneg a) && a_output_known a &&
  (match a_seqs2 a with None => true | Some ok => ok end).
