(* C13: grouped, conditional and entropy statistics (stats.pc_conditional, stats.pc_grouped_cross,
   distance.pcDelta_grouped, distance.pcDelta_grouped_cross, entropy.renyi2_entropy, entropy.stdrenyi2_entropy).
   Definitions only; proofs in proofs/GroupedP.v. *)
From Coq Require Import List ZArith QArith Bool Arith.
From PV Require Import lib.Val lib.Condensed lib.Str model.Pc model.PcDelta.
Import ListNotations.
Close Scope Q_scope.
Open Scope nat_scope.

(* ------------------------------------------------------------------ group keys and their order *)
(* A group key is the tuple of the cells of the grouping columns. A cell is a list of integers: the code points of a
   string, or the one-element list [n] for a number. Python compares strings lexicographically by code point (a proper
   prefix first) and tuples lexicographically by component: both are [lex]. *)
Fixpoint lex {A : Type} (cmp : A -> A -> comparison) (a b : list A) : comparison :=
  match a, b with
  | [], [] => Eq
  | [], _ :: _ => Lt
  | _ :: _, [] => Gt
  | x :: a', y :: b' => match cmp x y with Eq => lex cmp a' b' | c => c end
  end.
Definition cell := list Z.
Definition key := list cell.
Definition cell_cmp : cell -> cell -> comparison := lex Z.compare.
Definition key_cmp : key -> key -> comparison := lex cell_cmp.
Definition key_eqd : forall a b : key, {a = b} + {a <> b} := list_eq_dec (list_eq_dec Z.eq_dec).
Definition key_eqb (a b : key) : bool := if key_eqd a b then true else false.
Definition key_leb (a b : key) : bool := match key_cmp a b with Gt => false | _ => true end.

(* sorted(...) / groupby(sort=True): insertion sort, stable *)
Fixpoint insert_key (k : key) (l : list key) : list key :=
  match l with
  | [] => [k]
  | x :: r => if key_leb k x then k :: l else x :: insert_key k r
  end.
Definition sort_keys (l : list key) : list key := fold_right insert_key [] l.

Definition sq (x : Q) : Q := (x * x)%Q.

Section Grouped.
Context {X : Type}.
Variable eqd : forall a b : X, {a = b} + {a <> b}.

(* a table: one row = (key of the grouping columns, value of the feature column(s)) *)
Definition table := list (key * X).
(* the rows of one group, in their original order *)
Definition rows_of (k : key) (t : table) : list X := map snd (filter (fun r => key_eqb (fst r) k) t).
(* df.groupby(by): distinct keys in ascending order *)
Definition group_keys (t : table) : list key := sort_keys (nodup key_eqd (map fst t)).
Definition groups (t : table) : list (key * list X) := map (fun k => (k, rows_of k t)) (group_keys t).
(* df.groupby(by).filter(lambda x: len(x) > 1) *)
Definition big_groups (t : table) : list (key * list X) :=
  filter (fun g => 2 <=? length (snd g)) (groups t).

(* pc of one sample / of two samples as a value: 0/0 is NaN *)
Definition pcq (l : list X) : Q := (qn (pc_num eqd l) / qn (pc_den l))%Q.
Definition pc2q (l1 l2 : list X) : Q := (qn (pc2_num eqd l1 l2) / qn (pc2_den l1 l2))%Q.
Definition pcv (l : list X) : val := if pc_den l =? 0 then NaN else V (pcq l).
Definition pc2v (l1 l2 : list X) : val := if pc2_den l1 l2 =? 0 then NaN else V (pc2q l1 l2).
Definition val_opt (v : val) : option Q := match v with V q => Some q | _ => None end.

(* stats.pc_conditional: weights are aligned, by position, with the surviving groups in ascending key order;
   adjusted = w^2 / sum w^2; result = sum adjusted * pc_g. A weight vector of another length makes NumPy raise
   (a one-element vector would be broadcast: outside the stated domain, modelled as Err as well). *)
Definition cond_weights (w : option (list Q)) (n : nat) : list Q :=
  match w with None => repeat 1%Q n | Some ws => ws end.
Definition pc_conditional (w : option (list Q)) (t : table) : val :=
  let gs := big_groups t in
  if length (concat (map snd gs)) <? 2 then NaN
  else
    let ws := cond_weights w (length gs) in
    if length ws =? length gs then
      let s := sumQ (map sq ws) in
      V (sumQ (map (fun wp => (sq (fst wp) / s * pcq (snd (snd wp)))%Q) (combine ws gs)))
    else Err.

(* itertools.combinations(groups, 2) over the sorted groups = the row-major strict upper triangle *)
Definition cross_condensed {D : Type} (f : list X -> list X -> D) (t : table) : list D :=
  pdist_loop f [] (map snd (groups t)).
Definition cross_index (t : table) : list (key * key) := pdist_loop (fun a b : key => (a, b)) [] (group_keys t).
End Grouped.

(* scipy.spatial.distance.squareform of a condensed vector (contract), then np.fill_diagonal *)
Definition square_of {D : Type} (dd : D) (diag : nat -> D) (m : nat) (v : list D) : list (list D) :=
  map (fun i => map (fun j => if i =? j then diag i
                              else if i <? j then nth (cidx m i j) v dd else nth (cidx m j i) v dd)
                    (seq 0 m)) (seq 0 m).

Section Cross.
Context {X : Type}.
Variable eqd : forall a b : X, {a = b} + {a <> b}.
(* stats.pc_grouped_cross: pc(group g, group h) off the diagonal, NaN (None) on it *)
Definition pc_grouped_cross (t : @table X) : list (list (option Q)) :=
  square_of None (fun _ => None) (length (groups t))
            (cross_condensed (fun a b => val_opt (pc2v eqd a b)) t).
End Cross.

(* ------------------------------------------------------------------ pcDelta by group *)
(* one result row of pcDelta with bin edges: normalize=True divides by the total (all NaN when it is 0),
   normalize=False returns the counts *)
Definition pcd_row (norm : bool) (h : list nat) : option (list Q) :=
  if norm then (if total h =? 0 then None else Some (normalize h)) else Some (map qn h).
Definition pcd_within (edges : list Q) (norm : bool) (xs : list str) : option (list Q) :=
  pcd_row norm (pcdelta_counts slev_x (@nil N) edges xs None).
Definition pcd_cross (edges : list Q) (norm : bool) (xs ys : list str) : option (list Q) :=
  pcd_row norm (pcdelta_counts slev_x (@nil N) edges xs (Some ys)).
(* bins = 0: pcDelta returns pc(seqs, seqs2) *)
Definition pcd0_within (xs : list str) : option Q := val_opt (pcv str_eq_dec xs).
Definition pcd0_cross (xs ys : list str) : option Q := val_opt (pc2v str_eq_dec xs ys).

(* distance.pcDelta_grouped: one row per group, ascending keys *)
Definition pcdelta_grouped (edges : list Q) (norm : bool) (t : @table str) : list (key * option (list Q)) :=
  map (fun g => (fst g, pcd_within edges norm (snd g))) (groups t).
Definition pcdelta_grouped0 (t : @table str) : list (key * option Q) :=
  map (fun g => (fst g, pcd0_within (snd g))) (groups t).
(* distance.pcDelta_grouped_cross, condensed=True: one row per pair g < h *)
Definition pcdelta_cross_condensed (edges : list Q) (norm : bool) (t : @table str) : list (option (list Q)) :=
  cross_condensed (pcd_cross edges norm) t.
Definition pcdelta_cross0_condensed (t : @table str) : list (option Q) := cross_condensed pcd0_cross t.
(* condensed=False with bins=0: squareform, within-group values on the diagonal *)
Definition pcdelta_cross0_square (t : @table str) : list (list (option Q)) :=
  square_of None (fun i => snd (nth i (pcdelta_grouped0 t) ([], None))) (length (groups t))
            (pcdelta_cross0_condensed t).

(* ------------------------------------------------------------------ entropies *)
(* which coincidence probability renyi2_entropy takes the logarithm of: 0 = pc(df[features]), 1 = pc_joint(df, features),
   2 = pc_conditional(df, by, features, **kwargs). [by_falsy]: `not by`; [is_list]: type(features) == list *)
Definition renyi2_dispatch_spec (by_falsy is_list : bool) : nat :=
  if by_falsy then (if is_list then 1 else 0) else 2.
(* stdrenyi2_entropy: 0 = stdpc(df[features]) / pc(df[features]), 1 = stdpc_joint / pc_joint *)
Definition stdrenyi2_dispatch_spec (is_list : bool) : nat := if is_list then 1 else 0.

Section Entropy.
Context {X : Type}.
Variable eqd : forall a b : X, {a = b} + {a <> b}.
(* the coincidence probability selected by the dispatch; plain and joint differ only in what a row value is
   (one cell / the joined cells of the feature columns) *)
Definition renyi2_arg (which : nat) (w : option (list Q)) (t : @table X) : val :=
  match which with
  | 2 => pc_conditional eqd w t
  | _ => pcv eqd (map snd t)
  end.
End Entropy.
