(* C12 / C03: one-edit neighbourhood generators of pyrepseq/distance.py and the
   breadth-first edit ball of nn._generate_neighbors.  Definitions only. *)
From Coq Require Import List NArith Bool Arith.
From PV Require Import lib.Edits lib.Str.
Import ListNotations.

Definition opt_is (p : option N) (c : N) : bool :=
  match p with Some d => N.eqb d c | None => false end.

(* levenshtein_neighbors, deletion loop: position i is skipped when x[i] = x[i-1] *)
Fixpoint dels1 (prev : option N) (x : str) : list str :=
  match x with
  | [] => []
  | c :: r => (if opt_is prev c then [] else [r]) ++ map (cons c) (dels1 (Some c) r)
  end.

(* replacement loop: every position, every letter of the alphabet except the current one *)
Fixpoint subs1 (al : list N) (x : str) : list str :=
  match x with
  | [] => []
  | c :: r => map (fun a => a :: r) (filter (fun a => negb (N.eqb a c)) al) ++ map (cons c) (subs1 al r)
  end.

(* insertion loop: at position i letter aa is skipped when aa = x[i-1] *)
Fixpoint ins1 (al : list N) (prev : option N) (x : str) : list str :=
  map (fun a => a :: x) (filter (fun a => negb (opt_is prev a)) al) ++
  match x with
  | [] => []
  | c :: r => map (cons c) (ins1 al (Some c) r)
  end.

Definition lev_nbrs (al : list N) (x : str) : list str :=
  dels1 None x ++ subs1 al x ++ ins1 al None x.

(* hamming_neighbors with explicit variable_positions (any order, as given) *)
Definition sub_at (al : list N) (i : nat) (x : str) : list str :=
  match nth_error x i with
  | None => []
  | Some c => map (fun a => firstn i x ++ a :: skipn (S i) x) (filter (fun a => negb (N.eqb a c)) al)
  end.
Definition ham_nbrs_pos (al : list N) (pos : list nat) (x : str) : list str :=
  flat_map (fun i => sub_at al i x) pos.
Definition ham_nbrs (al : list N) (x : str) : list str := subs1 al x.

(* next_nearest_neighbors: levels 1..m, each level the set of neighbours of the previous one *)
Definition nodups (l : list str) : list str := nodup str_eq_dec l.
Fixpoint nn_levels (nb : str -> list str) (m : nat) (cur : list str) : list str :=
  match m with
  | 0 => []
  | S m' => cur ++ nn_levels nb m' (nodups (flat_map nb cur))
  end.
Definition next_nearest (nb : str -> list str) (m : nat) (x : str) : list str :=
  remove str_eq_dec x (nodups (nn_levels nb m (nb x))).

(* nn._generate_neighbors: insertion-ordered dict keys; each round iterates over a
   snapshot of the keys and appends unseen neighbours *)
Definition add_all (acc : list str) (l : list str) : list str :=
  fold_left (fun a n => if memb str_eq_dec n a then a else a ++ [n]) l acc.
Definition ball_round (nb : str -> list str) (keys : list str) : list str :=
  fold_left (fun acc s => add_all acc (nb s)) keys keys.
Fixpoint ball (nb : str -> list str) (k : nat) (x : str) : list str :=
  match k with 0 => [x] | S k' => ball_round nb (ball nb k' x) end.

(* exactly-t-step reachability through a neighbourhood function *)
Inductive reach (nb : str -> list str) : nat -> str -> str -> Prop :=
| R0 x : reach nb 0 x x
| RS t x y z : reach nb t x y -> In z (nb y) -> reach nb (S t) x z.

(* set utilities *)
Definition find_pairs (nb : str -> list str) (seqs : list str) : list (str * str) :=
  (* sorted(set(seqs)) is supplied sorted and duplicate-free by the caller of the model *)
  (fix go (xs : list str) (ref : list str) : list (str * str) :=
     match xs with
     | [] => []
     | x :: xs' => map (fun y => (x, y)) (filter (fun y => memb str_eq_dec y ref) (nodups (nb x)))
                   ++ go xs' (remove str_eq_dec x ref)
     end) seqs seqs.
Definition neighbor_numbers (nb : str -> list str) (seqs ref : list str) : list nat :=
  map (fun s => length (filter (fun y => memb str_eq_dec y ref) (nodups (nb s)))) seqs.
Definition isdist1 (nb : str -> list str) (x : str) (ref : list str) : bool :=
  existsb (fun y => memb str_eq_dec y ref) (nb x).
