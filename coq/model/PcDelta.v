(* C05: pcDelta = histogram of all pairwise distances (distance.pcDelta). Definitions only. *)
From Coq Require Import List QArith NArith Bool Arith.
From PV Require Import lib.Condensed lib.Edits lib.LevDP lib.Str model.Pc.
Import ListNotations.

(* numpy.histogram convention: bin t = [e_t, e_{t+1}), the last bin is closed on the right,
   values outside [e_0, e_last] are dropped *)
Definition in_bin (edges : list Q) (t : nat) (v : Q) : bool :=
  let lo := nth t edges 0 in
  let hi := nth (S t) edges 0 in
  Qle_bool lo v && (if Nat.eqb (S (S t)) (length edges) then Qle_bool v hi else negb (Qle_bool hi v)).
Definition histogram (edges : list Q) (vals : list Q) : list nat :=
  map (fun t => length (filter (in_bin edges t) vals)) (seq 0 (length edges - 1)).

Definition qn (n : nat) : Q := inject_Z (Z.of_nat n).

Section Metric.
Variable metric : str -> str -> nat.
(* one collection: the condensed vector (each unordered pair of distinct positions once) *)
Definition pdist_vals (xs : list str) : list Q := map qn (pdist_loop metric [] xs).
(* two collections: every i with every j *)
Definition cdist_vals (xs ys : list str) : list Q := map qn (concat (cdist_loop metric xs ys)).
Definition pcdelta_counts (edges : list Q) (xs : list str) (ys : option (list str)) : list nat :=
  histogram edges (match ys with None => pdist_vals xs | Some y => cdist_vals xs y end).
End Metric.

Definition total (h : list nat) : nat := list_sum h.
(* normalize=True, pseudocount 0: counts / total *)
Definition normalize (h : list nat) : list Q := map (fun c => qn c / qn (total h)) h.
(* pseudocount c > 0: (count + c) / (total + 2c) *)
Definition pseudo (c : Q) (h : list nat) : list Q := map (fun x => (qn x + c) / (qn (total h) + 2 * c)) h.

(* unordered pairs i < j holding equal elements *)
Definition equal_pairs (xs : list str) : list (nat * nat) :=
  filter (fun ij => str_eqb (nth (fst ij) xs []) (nth (snd ij) xs [])) (upper (length xs)).
