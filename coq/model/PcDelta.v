(* C05: pcDelta = histogram of all pairwise distances (distance.pcDelta). Definitions only. *)
From Coq Require Import List QArith NArith ZArith Bool Arith.
From PV Require Import lib.Condensed lib.Edits lib.LevDP lib.Str lib.Val model.Pc model.Resample.
From PV Require Import gen.Gen_data gen.Gen_c05.
Import ListNotations.

(* numpy.histogram convention: bin t = [e_t, e_{t+1}), the last bin is closed on the right,
   values outside [e_0, e_last] are dropped *)
Definition in_bin (edges : list Q) (t : nat) (v : Q) : bool :=
  let lo := nth t edges 0 in
  let hi := nth (S t) edges 0 in
  Qle_bool lo v && (if Nat.eqb (S (S t)) (length edges) then Qle_bool v hi else negb (Qle_bool hi v)).
Definition histogram (edges : list Q) (vals : list Q) : list nat :=
  map (fun t => length (filter (in_bin edges t) vals)) (seq 0 (length edges - 1)).

(* strictly increasing edge vector; value inside the outer edges *)
Fixpoint increasing (e : list Q) : Prop :=
  match e with
  | a :: r => match r with b :: _ => a < b /\ increasing r | [] => True end
  | [] => True
  end.
Definition inside (edges : list Q) (v : Q) : bool :=
  match edges with
  | [] => false
  | a :: r => match r with [] => false | _ => Qle_bool a v && Qle_bool v (last r 0) end
  end.

Definition qn (n : nat) : Q := inject_Z (Z.of_nat n).

(* specification enumerations: unordered pairs of distinct positions, all cross pairs *)
Definition pairs_lt (n : nat) : list (nat * nat) :=
  filter (fun ij => Nat.ltb (fst ij) (snd ij)) (list_prod (seq 0 n) (seq 0 n)).
Definition pairs_cross (n m : nat) : list (nat * nat) := list_prod (seq 0 n) (seq 0 m).

Section Metric.
Context {X : Type}.
Variable metric : X -> X -> nat.
Variable d0 : X.
(* one collection: the condensed vector = squareform(checks=False) of the self-cdist matrix
   (each unordered pair of distinct positions once, entry (i,j) with i<j = metric x_i x_j) *)
Definition pdist_vals (xs : list X) : list Q := map qn (pdist_loop metric d0 xs).
(* two collections: every i with every j, row-major *)
Definition cdist_vals (xs ys : list X) : list Q := map qn (concat (cdist_loop metric xs ys)).
Definition pcdelta_vals (xs : list X) (ys : option (list X)) : list Q :=
  match ys with None => pdist_vals xs | Some y => cdist_vals xs y end.
Definition pcdelta_counts (edges : list Q) (xs : list X) (ys : option (list X)) : list nat :=
  histogram edges (pcdelta_vals xs ys).
Definition dist_at (xs ys : list X) (ij : nat * nat) : Q := qn (metric (nth (fst ij) xs d0) (nth (snd ij) ys d0)).
End Metric.

Definition total (h : list nat) : nat := list_sum h.
(* normalize=True, pseudocount 0: counts / total *)
Definition normalize (h : list nat) : list Q := map (fun c => qn c / qn (total h)) h.
(* pseudocount c > 0: (count + c) / (total + 2c) *)
Definition pseudo (c : Q) (h : list nat) : list Q := map (fun x => (qn x + c) / (qn (total h) + 2 * c)) h.

(* unordered pairs i < j holding equal elements *)
Definition equal_pairs (xs : list str) : list (nat * nat) :=
  filter (fun ij => str_eqb (nth (fst ij) xs []) (nth (snd ij) xs [])) (upper (length xs)).

(* ---- the whole function ------------------------------------------------------------- *)
Inductive bins_arg := BinsZero | BinsNone | BinsEdges (e : list Q).
Inductive pcd_out := OutPc (num den : nat) | OutVec (v : list (option Q)).

Definition zrange (lo hi : Z) : list Z := map (fun k => (lo + Z.of_nat k)%Z) (seq 0 (Z.to_nat (hi - lo))).
Definition default_edges : list Q :=
  map inject_Z (zrange (fst gen_pcdelta_default_bins_range) (snd gen_pcdelta_default_bins_range)).
Definition edges_of (b : bins_arg) : list Q := match b with BinsEdges e => e | _ => default_edges end.

(* downsample of distance.py with the random draw S (positions) as an explicit argument;
   keep-condition and sample size are the regenerated expressions *)
Definition pcd_downsample {X} (d : X) (xs : list X) (maxseqs : option nat) (S : list nat) : list X :=
  match maxseqs with
  | None => xs
  | Some m => if gen_downsample_keep (length xs) m then xs
              else map (fun t => nth t xs d) (firstn (gen_downsample_size (length xs) m) S)
  end.

Section PcDelta.
Context {X : Type}.
Variable eqd : forall a b : X, {a = b} + {a <> b}.
Variable metric : X -> X -> nat.
Variable d0 : X.
Definition pcdelta (xs : list X) (ys : option (list X)) (bins : bins_arg) (norm : bool) (c : Q)
                   (maxseqs : option nat) (S1 S2 : list nat) : pcd_out :=
  match bins with
  | BinsZero => match ys with
                | None => OutPc (pc_num eqd xs) (pc_den xs)
                | Some y => OutPc (pc2_num eqd xs y) (pc2_den xs y)
                end
  | _ => let xs' := pcd_downsample d0 xs maxseqs S1 in
         let ys' := option_map (fun y => pcd_downsample d0 y maxseqs S2) ys in
         OutVec (gen_pcdelta_tail norm c (map qn (pcdelta_counts metric d0 (edges_of bins) xs' ys')))
  end.
End PcDelta.

(* ---- metrics ------------------------------------------------------------------------ *)
(* elements are (alpha CDR3, beta CDR3) pairs; plain strings are carried in the first component.
   kind: 0 (weighted) Levenshtein on the first component [Levenshtein / WeightedLevenshtein / AlphaCdr3Levenshtein],
         2 on the second [BetaCdr3Levenshtein], 3 sum of both [Cdr3Levenshtein]; code 1 = 0 (alpha) *)
Definition row := (str * str)%type.
Definition row_metric (kind wi wd ws : nat) (a b : row) : nat :=
  let l := wlev_dp N.eq_dec wi wd ws in
  match kind with
  | 2%nat => l (snd a) (snd b)
  | 3%nat => (l (fst a) (fst b) + l (snd a) (snd b))%nat
  | _ => l (fst a) (fst b)
  end.
Definition row0 : row := ([], []).
Definition row_eq_dec : forall a b : row, {a = b} + {a <> b}.
Proof. decide equality; apply str_eq_dec. Defined.

(* load_pcDelta_background: bin edges from the index of the bundled table *)
Definition background_bins : list Z := gen_background_bins pcdelta_background_index.
