(* SciPy vocabulary of nn._make_output (C10): coo_matrix((data, (row, col)), shape) stores data[k] at [row[k], col[k]];
   .toarray() is the dense array of that shape in which entries with equal coordinates are ADDED. *)
From Coq Require Import List ZArith Bool Arith.
Import ListNotations.

Definition coo_toarray (m : (nat * nat) * (list Z * (list nat * list nat))) : list (list Z) :=
  let '((nrows, ncols), (data, (row, col))) := m in
  map (fun r => map (fun q =>
        fold_right Z.add 0%Z
          (map (fun e => if Nat.eqb (fst (snd e)) r && Nat.eqb (snd (snd e)) q then fst e else 0%Z)
               (combine data (combine row col))))
      (seq 0 ncols)) (seq 0 nrows).
