(* C04 / C11: composition-histogram pre-filter of nn.kdtree. Definitions only. *)
From Coq Require Import List NArith ZArith Bool Arith.
From PV Require Import lib.Edits lib.Str.
Import ListNotations.

(* _histogram_encode with an arbitrary letter -> bin map; coordinate t counts the letters of bin t *)
Definition hist (bin : N -> nat) (dim : nat) (s : str) : list Z :=
  map (fun t => Z.of_nat (length (filter (fun c => Nat.eqb (bin c) t) s))) (seq 0 dim).

Fixpoint sqdist (u v : list Z) : Z :=
  match u, v with
  | x :: u', y :: v' => ((x - y) * (x - y) + sqdist u' v')%Z
  | _, _ => 0%Z
  end.
