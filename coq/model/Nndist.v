(* C12 (extension): the enumeration loops of pyrepseq/distance.py
   _isdist2_hamming, _isdist3_hamming and the if-cascade of nndist_hamming.
   Definitions only. *)
From Coq Require Import List NArith Bool Arith.
From PV Require Import lib.Edits lib.Str model.Nbrs.
Import ListNotations.

(* the letters the loops `for aa in aminoacids: if aa == x[i]: continue` run over *)
Definition other_letters (al : list N) (c : N) : list N :=
  filter (fun a => negb (N.eqb a c)) al.

(* _isdist2_hamming:
     for i in range(len(x)):
       for aai in aminoacids (aai != x[i]):   si = x[:i] + aai + x[i+1:]
         for j in range(i+1, len(x)):
           for aaj in aminoacids (aaj != x[j]):   candidate si[:j] + aaj + si[j+1:]
   Position i = 0 is the head of the list: for every other letter a, the candidates
   are a :: (one substitution in the tail, in the order of subs1); positions i >= 1
   keep the head and substitute twice in the tail. *)
Fixpoint subs2 (al : list N) (x : str) : list str :=
  match x with
  | [] => []
  | c :: r => flat_map (fun a => map (cons a) (subs1 al r)) (other_letters al c)
              ++ map (cons c) (subs2 al r)
  end.

(* _isdist3_hamming: one more nesting level (k > j > i, aak != x[k]) *)
Fixpoint subs3 (al : list N) (x : str) : list str :=
  match x with
  | [] => []
  | c :: r => flat_map (fun a => map (cons a) (subs2 al r)) (other_letters al c)
              ++ map (cons c) (subs3 al r)
  end.

(* exactly k substituted positions i1 < ... < ik, same loop order, any depth *)
Fixpoint subsk (al : list N) (k : nat) (x : str) : list str :=
  match x with
  | [] => match k with 0 => [[]] | S _ => [] end
  | c :: r => match k with
              | 0 => []
              | S k' => flat_map (fun a => map (cons a) (subsk al k' r)) (other_letters al c)
              end ++ map (cons c) (subsk al k r)
  end.

(* `if <candidate> in reference: return True` ... `return False` *)
Definition isdist2_ham (al : list N) (x : str) (ref : list str) : bool :=
  existsb (fun y => memb str_eq_dec y ref) (subs2 al x).
Definition isdist3_ham (al : list N) (x : str) (ref : list str) : bool :=
  existsb (fun y => memb str_eq_dec y ref) (subs3 al x).

(* nndist_hamming(seq, reference, maxdist):
     if maxdist > 4: raise NotImplementedError                      -> None
     if seq in reference: return 0
     if (maxdist == 1) or isdist1(seq, reference, hamming_neighbors): return 1
     if (maxdist == 2) or _isdist2_hamming(seq, reference): return 2
     if (maxdist == 3) or _isdist3_hamming(seq, reference): return 3
     return 4
   (maxdist = 0 is not special-cased by the code: it falls through every `maxdist == k` test) *)
Definition nndist_ham (al : list N) (maxdist : nat) (x : str) (ref : list str) : option nat :=
  if Nat.ltb 4 maxdist then None
  else if memb str_eq_dec x ref then Some 0
  else if Nat.eqb maxdist 1 || isdist1 (ham_nbrs al) x ref then Some 1
  else if Nat.eqb maxdist 2 || isdist2_ham al x ref then Some 2
  else if Nat.eqb maxdist 3 || isdist3_ham al x ref then Some 3
  else Some 4.

(* specification side: the least Hamming distance from x to an equal-length member of ref
   (None when ref has no member of the length of x) *)
Definition nearest_opt (x : str) (ref : list str) : option nat :=
  fold_right (fun r acc => match sham x r, acc with
                           | Some h, Some m => Some (Nat.min h m)
                           | Some h, None => Some h
                           | None, _ => acc
                           end) None ref.
(* ... with the value 4 (= the code's final `return 4`) when there is no such member *)
Definition nearest (x : str) (ref : list str) : nat :=
  match nearest_opt x ref with Some d => d | None => 4 end.
