(* C18: input cleaning (pyrepseq/io.py: isvalidaa, isvalidcdr3, standardize_dataframe, multimerge).
   Definitions only.  Every function takes the `codefacts` record re-read from the source
   (gen.Gen_c18.gen_c18_facts); `original_facts` is the hand-written record of the unrepaired
   tree, kept so that the refutation of totality on that tree stays machine-checked. *)
From Coq Require Import List NArith ZArith QArith Bool Arith.
From PV Require Import lib.PyObj gen.Gen_consts.
Import ListNotations.

Definition str := list N.

(* ------------------------------------------------------------------ predicates *)
(* all(c in _aminoacids_set for c in it): stops at the first False; hash(c) may raise *)
Fixpoint all_in_aa (l : list pyobj) : res bool :=
  match l with
  | [] => Ok true
  | c :: r => match py_in_charset gen_aminoacids c with
              | Raise e => Raise e
              | Ok false => Ok false
              | Ok true => all_in_aa r
              end
  end.

Definition isvalidaa_raw (o : pyobj) : res bool := rbind (py_iter o) all_in_aa.
Definition isvalidaa (F : codefacts) (o : pyobj) : res bool :=
  catch (aa_catches F) false (isvalidaa_raw o).

Definition eval_cond (F : codefacts) (o : pyobj) (c : cond) : res bool :=
  match c with
  | CValidAA => isvalidaa F o
  | CLenPos => rbind (py_len o) (fun n => Ok (negb (Nat.eqb n 0)))
  | CItemEq i s => rbind (py_getitem o i) (fun x => Ok (py_eq_str x s))
  | CItemIn i ss => rbind (py_getitem o i) (fun x => Ok (existsb (py_eq_str x) ss))
  end.
(* a and b and c ...: left to right, stops at the first False *)
Fixpoint eval_and (F : codefacts) (o : pyobj) (cs : list cond) : res bool :=
  match cs with
  | [] => Ok true
  | c :: r => match eval_cond F o c with
              | Raise e => Raise e
              | Ok false => Ok false
              | Ok true => eval_and F o r
              end
  end.
Definition isvalidcdr3 (F : codefacts) (o : pyobj) : res bool :=
  catch (cdr3_catches F) false (eval_and F o (cdr3_conds F)).

(* the facts of the tree before the repairs (D10, D11) *)
Definition original_facts : codefacts := {|
  aa_catches := [CTypeError];
  cdr3_conds := [CValidAA; CItemEq 0 [67%N]; CItemIn (-1) [[70%N]; [87%N]; [67%N]]];
  cdr3_catches := [CTypeError];
  merge_on_kw := false;
  std_cols := []
|}.

(* specification on strings *)
Definition in_amino (c : N) : bool := existsb (N.eqb c) gen_aminoacids.
Definition aa_spec (s : str) : bool := forallb in_amino s.
Definition cdr3_spec (s : str) : bool :=
  forallb in_amino s &&
  match s with
  | [] => false
  | c :: _ => N.eqb c 67 && existsb (N.eqb (last s 0%N)) [70; 87; 67]%N
  end.

(* ------------------------------------------------------------------ tables *)
Definition cell := option str.                        (* None = missing (None / NaN / pd.NA) *)
Definition column := (str * list cell)%type.
Definition table := (list str * list column)%type.    (* index labels, columns in order *)

Definition str_eqb (a b : str) : bool := codes_eqb a b.
Fixpoint assoc {V} (m : list (str * V)) (k : str) : option V :=
  match m with
  | [] => None
  | (k', v) :: r => if str_eqb k' k then Some v else assoc r k
  end.

(* DataFrame.rename(columns=mapper): names absent from the mapper are kept *)
Definition rename (m : list (str * str)) (c : str) : str :=
  match assoc m c with Some c' => c' | None => c end.

Section Standardize.
Variable opts : Type.
Variable f : nat -> opts -> str -> cell.      (* the tidytcells standardiser of kind k under options o *)

(* Series.map(lambda x: None if pd.isna(x) else f(x)) on a standard column; other columns untouched *)
Definition cell_fn (o : opts) (k : option nat) (x : cell) : cell :=
  match k, x with
  | Some k, Some s => f k o s
  | _, _ => x
  end.
Definition std_kind (F : codefacts) (c : str) : option nat := assoc (std_cols F) c.

Definition standardize_col (F : codefacts) (m : list (str * str)) (flag : bool) (o : opts) (c : column) : column :=
  let n := rename m (fst c) in
  (n, if flag then map (cell_fn o (std_kind F n)) (snd c) else snd c).
Definition standardize (F : codefacts) (m : list (str * str)) (flag : bool) (o : opts) (t : table) : table :=
  (fst t, map (standardize_col F m flag o) (snd t)).
End Standardize.

(* ------------------------------------------------------------------ multimerge *)
(* a table keyed by the join key (the index, or the named column): column names and rows *)
Definition ktable := (list str * list (str * list cell))%type.
Definition kcols (t : ktable) : list str := fst t.
Definition krows (t : ktable) : list (str * list cell) := snd t.
Definition keys (t : ktable) : list str := map fst (krows t).
Definition mem (k : str) (l : list str) : bool := existsb (str_eqb k) l.
Definition pad (t : ktable) : list cell := repeat None (length (kcols t)).
Definition row_or_pad (k : str) (t : ktable) : list cell :=
  match assoc (krows t) k with Some r => r | None => pad t end.

(* pd.merge(a, b, left_index=True, right_index=True, how=outer|inner) for unique keys (row order is not
   part of the contract and is canonicalised by the harness) *)
Definition join_keys (outer : bool) (a b : ktable) : list str :=
  if outer then keys a ++ filter (fun k => negb (mem k (keys a))) (keys b)
  else filter (fun k => mem k (keys b)) (keys a).
Definition join2 (outer : bool) (a b : ktable) : ktable :=
  (kcols a ++ kcols b, map (fun k => (k, row_or_pad k a ++ row_or_pad k b)) (join_keys outer a b)).

Definition add_suffix (ts : ktable * str) : ktable :=
  (map (fun c => c ++ [95%N] ++ snd ts) (kcols (fst ts)), krows (fst ts)).   (* c + "_" + suffix *)

(* reduce(f, ts): TypeError on an empty list *)
Definition reduce_join (outer : bool) (ts : list ktable) : res ktable :=
  match ts with
  | [] => Raise TypeError
  | t :: r => Ok (fold_left (join2 outer) r t)
  end.

Definition multimerge (F : codefacts) (on_index : bool) (sufs : list str) (outer : bool) (ts : list ktable) : res ktable :=
  match sufs with
  | _ :: _ => reduce_join outer (map add_suffix (combine ts sufs))        (* zip truncates *)
  | [] =>
    if on_index then reduce_join outer ts
    else match ts with
         | [] => Raise TypeError
         | [t] => Ok t                                   (* reduce never calls the lambda *)
         | _ => if merge_on_kw F then reduce_join outer ts
                else Raise TypeError                    (* pd.merge(left, right, on, how=...): two values for `how` *)
         end
  end.

(* ------------------------------------------------------------------ multimerge, repeated keys *)
(* The same join when a key may occur more than once in a table (many-to-many): the result rows of a key are the
   product of the tables' rows for that key, a table without the key contributing one all-missing row in an outer
   join.  pandas' order of the rows is an implementation detail: the harness compares row MULTISETS. *)
Definition rows_of (k : str) (t : ktable) : list (list cell) :=
  map snd (filter (fun r => str_eqb (fst r) k) (krows t)).
Definition rows_or_pad (k : str) (t : ktable) : list (list cell) :=
  match rows_of k t with [] => [pad t] | l => l end.
Definition prod2 (la lb : list (list cell)) : list (list cell) := flat_map (fun ra => map (app ra) lb) la.
Fixpoint dedup (l : list str) : list str :=
  match l with
  | [] => []
  | k :: r => if mem k r then dedup r else k :: dedup r
  end.
Definition join_keys_m (outer : bool) (a b : ktable) : list str :=
  if outer then dedup (keys a) ++ filter (fun k => negb (mem k (keys a))) (dedup (keys b))
  else filter (fun k => mem k (keys b)) (dedup (keys a)).
Definition join2m (outer : bool) (a b : ktable) : ktable :=
  (kcols a ++ kcols b,
   flat_map (fun k => map (pair k) (prod2 (rows_or_pad k a) (rows_or_pad k b))) (join_keys_m outer a b)).
Definition reduce_join_m (outer : bool) (ts : list ktable) : res ktable :=
  match ts with
  | [] => Raise TypeError
  | t :: r => Ok (fold_left (join2m outer) r t)
  end.
Definition multimerge_m (F : codefacts) (on_index : bool) (sufs : list str) (outer : bool) (ts : list ktable) : res ktable :=
  match sufs with
  | _ :: _ => reduce_join_m outer (map add_suffix (combine ts sufs))
  | [] =>
    if on_index then reduce_join_m outer ts
    else match ts with
         | [] => Raise TypeError
         | [t] => Ok t
         | _ => if merge_on_kw F then reduce_join_m outer ts
                else Raise TypeError
         end
  end.
(* the n-way product of the per-table row lists `f t` (specification side) *)
Fixpoint nprod (f : ktable -> list (list cell)) (ts : list ktable) : list (list cell) :=
  match ts with
  | [] => [[]]
  | t :: r => prod2 (f t) (nprod f r)
  end.
