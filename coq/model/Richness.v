(* C16: closed-form specifications of the Chao estimators and the set-overlap
   measures.  Definitions only (the generated kernels are in gen/Gen_stats.v). *)
From Coq Require Import List QArith NArith Bool Arith.
From PV Require Import lib.Val lib.Str.
Import ListNotations.
Open Scope Q_scope.

Definition nthQ (f : list Q) (i : nat) : Q := nth i f 0.
Definition ov (o : option Q) : val := match o with Some q => V q | None => NaN end.

Definition spec_chao1 (f : list Q) : Q :=
  let S := sumQ f in let f1 := nthQ f 0 in let f2 := nthQ f 1 in
  if Qeq_bool f2 0 then S + f1 * (f1 - 1) / 2 else S + f1 ^ 2 / (2 * f2).

Definition spec_chao2 (f : list Q) : option Q :=
  let S := sumQ f in let q1 := nthQ f 0 in let q2 := nthQ f 1 in
  if Qeq_bool q2 0 then None else Some (S + q1 ^ 2 / (2 * q2)).

(* classical Chao variance f2 (r^2/2 + r^3 + r^4/4), r = f1/f2 *)
Definition spec_var_chao (f : list Q) : option Q :=
  let f1 := nthQ f 0 in let f2 := nthQ f 1 in
  if Qeq_bool f2 0 then None
  else let r := f1 / f2 in Some (f2 * (r ^ 2 / 2 + r ^ 3 + r ^ 4 / 4)).

(* ---- set overlap; elements are tokens, None = missing value ---- *)
Definition dropna (l : list (option N)) : list N :=
  flat_map (fun o => match o with Some x => [x] | None => [] end) l.
Definition setof (l : list (option N)) : list N := nodup N.eq_dec (dropna l).
Definition inter_size (A B : list (option N)) : nat :=
  length (filter (fun x => memb N.eq_dec x (setof B)) (setof A)).
Definition union_size (A B : list (option N)) : nat :=
  length (nodup N.eq_dec (setof A ++ setof B)).
Definition qfrac (a b : nat) : Q := Z.of_nat a # Pos.of_nat b.
(* None = the implementation raises (ZeroDivisionError); NaN for the coefficient *)
Definition jaccard (A B : list (option N)) : option Q :=
  if Nat.eqb (union_size A B) 0 then None else Some (qfrac (inter_size A B) (union_size A B)).
Definition overlap (A B : list (option N)) : nat := inter_size A B.
Definition overlap_coefficient (A B : list (option N)) : val :=
  let a := length (setof A) in let b := length (setof B) in
  if Nat.eqb a 0 || Nat.eqb b 0 then NaN else V (qfrac (inter_size A B) (Nat.min a b)).
