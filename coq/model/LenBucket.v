(* C07 / C11: nn._to_len_bucket as a specification, in the shape and ORDER of the Python dict it returns
   (length -> (positions, sequences), keys in order of FIRST occurrence of the length in the input).  Definitions only.

   model/Engines.v `length_buckets` is the same family of position lists, listed in the order of
   `nodup Nat.eq_dec (map length seqs)`, which keeps the LAST occurrence of a repeated length; `kdtree_hamming` is a
   flat_map over the buckets whose result is compared as a set, so that order is immaterial there.
   proofs/GenKdtreeP.v relates the two (same buckets, permuted) and proves the regenerated source equal to this one. *)
From Coq Require Import List NArith Arith.
From PV Require Import lib.Str model.Symdel.
Import ListNotations.

(* the distinct lengths, in order of first occurrence *)
Definition first_lens (seqs : list str) : list nat :=
  rev (nodup Nat.eq_dec (rev (map (@length N) seqs))).
(* positions (ascending) of the sequences of length L *)
Definition bucket_positions (seqs : list str) (L : nat) : list nat :=
  filter (fun i => Nat.eqb (length (sget seqs i)) L) (seq 0 (length seqs)).
(* _to_len_bucket(seqs) as the list of its items *)
Definition to_len_bucket (seqs : list str) : list (nat * (list nat * list str)) :=
  map (fun L => (L, (bucket_positions seqs L, map (sget seqs) (bucket_positions seqs L)))) (first_lens seqs).
