(* C02: coincidence counting. Definitions only. *)
From Coq Require Import List Arith Bool.
Import ListNotations.

Section Pc.
Context {X : Type}.
Variable eqd : forall a b : X, {a = b} + {a <> b}.
Definition eqbX (a b : X) : bool := if eqd a b then true else false.

(* np.unique(return_counts=True): multiplicities of the distinct values *)
Definition mults (l : list X) : list nat := map (count_occ eqd l) (nodup eqd l).
Definition pc_num (l : list X) : nat := list_sum (map (fun c => c * (c - 1)) (mults l)).
Definition pc_den (l : list X) : nat := length l * (length l - 1).

(* two-sample form: np.unique on both, intersect1d, sum of products of counts of common values *)
Definition pc2_num (l1 l2 : list X) : nat :=
  list_sum (map (fun v => count_occ eqd l1 v * count_occ eqd l2 v)
                (filter (fun v => if in_dec eqd v l2 then true else false) (nodup eqd l1))).
Definition pc2_den (l1 l2 : list X) : nat := length l1 * length l2.

(* specification: ordered pairs of distinct positions / cross pairs holding equal elements *)
Definition eq_at (l1 l2 : list X) (i j : nat) : bool :=
  match nth_error l1 i, nth_error l2 j with Some a, Some b => eqbX a b | _, _ => false end.
Definition coinc_pairs (l : list X) : list (nat * nat) :=
  filter (fun ij => negb (Nat.eqb (fst ij) (snd ij)) && eq_at l l (fst ij) (snd ij))
         (list_prod (seq 0 (length l)) (seq 0 (length l))).
Definition cross_pairs (l1 l2 : list X) : list (nat * nat) :=
  filter (fun ij => eq_at l1 l2 (fst ij) (snd ij)) (list_prod (seq 0 (length l1)) (seq 0 (length l2))).
End Pc.
