(* C17: subsample / downsample with the random draw as an explicit argument. Definitions only. *)
From Coq Require Import List Arith Bool.
Import ListNotations.

(* np.concatenate([np.repeat(i, count) ...]): item t belongs to category (unpack counts)[t] *)
Fixpoint unpack_from (i : nat) (counts : list nat) : list nat :=
  match counts with [] => [] | c :: r => repeat i c ++ unpack_from (S i) r end.
Definition unpack (counts : list nat) : list nat := unpack_from 0 counts.

(* S = the positions chosen by np.random.choice(unpacked, n, replace=False): duplicate-free, < N.
   np.unique(sample, return_counts=True): ascending categories with their (positive) counts *)
Definition subsample (counts : list nat) (S : list nat) : list (nat * nat) :=
  let cats := map (fun t => nth t (unpack counts) 0) S in
  filter (fun p => Nat.ltb 0 (snd p))
         (map (fun i => (i, count_occ Nat.eq_dec cats i)) (seq 0 (length counts))).

(* downsample: unchanged when maxseqs is None or len <= maxseqs, else the elements at the chosen positions *)
Definition downsample {X} (d : X) (xs : list X) (maxseqs : option nat) (S : list nat) : list X :=
  match maxseqs with
  | None => xs
  | Some m => if Nat.leb (length xs) m then xs else map (fun t => nth t xs d) S
  end.

(* all sublists of length n (as lists of elements, order preserved) *)
Fixpoint subsets {X} (n : nat) (l : list X) : list (list X) :=
  match n, l with
  | 0, _ => [[]]
  | S _, [] => []
  | S n', x :: r => map (cons x) (subsets n' r) ++ subsets n r
  end.

(* ------------------------------------------------------------------ *)
(* Executable specification predicates (C17): the harness feeds them the
   IMPLEMENTATION's own output; proofs/ResampleP.v shows each is the Prop spec. *)

Fixpoint sorted_ltb (l : list nat) : bool :=
  match l with
  | [] => true
  | a :: r => match r with [] => true | b :: _ => Nat.ltb a b && sorted_ltb r end
  end.

(* subsample(counts, n) returned the (category, count) pairs r *)
Definition subsample_okb (counts : list nat) (n : nat) (r : list (nat * nat)) : bool :=
  sorted_ltb (map fst r)
  && forallb (fun p => Nat.ltb 0 (snd p) && Nat.ltb (fst p) (length counts)
                       && Nat.leb (snd p) (nth (fst p) counts 0)) r
  && Nat.eqb (list_sum (map snd r)) n.

(* a draw: n distinct positions below N *)
Fixpoint nodupb (l : list nat) : bool :=
  match l with [] => true | a :: r => negb (existsb (Nat.eqb a) r) && nodupb r end.
Definition valid_drawb (N n : nat) (S : list nat) : bool :=
  nodupb S && forallb (fun t => Nat.ltb t N) S && Nat.eqb (length S) n.

(* the canonical draw behind an output of subsample: the first c items of every reported category *)
Definition offset (counts : list nat) (i : nat) : nat := list_sum (firstn i counts).
Definition canon_draw (counts : list nat) (r : list (nat * nat)) : list nat :=
  flat_map (fun p => seq (offset counts (fst p)) (snd p)) r.

(* sub-multiset test: every element of r can be struck off xs, one occurrence each *)
Section SubMulti.
Context {X : Type}.
Variable eqd : forall a b : X, {a = b} + {a <> b}.
Fixpoint remove_one (a : X) (l : list X) : list X :=
  match l with [] => [] | b :: r => if eqd a b then r else b :: remove_one a r end.
Fixpoint submultib (r xs : list X) : bool :=
  match r with
  | [] => true
  | a :: r' => if in_dec eqd a xs then submultib r' (remove_one a xs) else false
  end.
(* downsample(xs, maxseqs) returned out *)
Definition downsample_okb (xs : list X) (maxseqs : option nat) (out : list X) : bool :=
  match maxseqs with
  | None => if list_eq_dec eqd out xs then true else false
  | Some m => if Nat.leb (length xs) m then (if list_eq_dec eqd out xs then true else false)
              else Nat.eqb (length out) m && submultib out xs
  end.
(* a draw reproducing [out] from [xs]: for every output element the first position not used yet *)
Fixpoint first_unused (a : X) (xs : list X) (used : list nat) (pos : nat) : option nat :=
  match xs with
  | [] => None
  | b :: r => if eqd a b then (if existsb (Nat.eqb pos) used then first_unused a r used (S pos) else Some pos)
              else first_unused a r used (S pos)
  end.
Fixpoint recover_draw (xs out : list X) (used : list nat) : option (list nat) :=
  match out with
  | [] => Some []
  | a :: out' => match first_unused a xs used 0 with
                 | None => None
                 | Some p => match recover_draw xs out' (p :: used) with
                             | None => None | Some dr => Some (p :: dr) end
                 end
  end.
End SubMulti.
