(* C17: subsample / downsample with the random draw as an explicit argument. Definitions only. *)
From Coq Require Import List Arith Bool.
Import ListNotations.

(* np.concatenate([np.repeat(i, count) ...]): item t belongs to category (unpack counts)[t] *)
Fixpoint unpack_from (i : nat) (counts : list nat) : list nat :=
  match counts with [] => [] | c :: r => repeat i c ++ unpack_from (S i) r end.
Definition unpack (counts : list nat) : list nat := unpack_from 0 counts.

(* S = the positions chosen by np.random.choice(unpacked, n, replace=False): duplicate-free, < N.
   np.unique(sample, return_counts=True): ascending categories with their (positive) counts *)
Definition subsample (counts : list nat) (S : list nat) : list (nat * nat) :=
  let cats := map (fun t => nth t (unpack counts) 0) S in
  filter (fun p => Nat.ltb 0 (snd p))
         (map (fun i => (i, count_occ Nat.eq_dec cats i)) (seq 0 (length counts))).

(* downsample: unchanged when maxseqs is None or len <= maxseqs, else the elements at the chosen positions *)
Definition downsample {X} (d : X) (xs : list X) (maxseqs : option nat) (S : list nat) : list X :=
  match maxseqs with
  | None => xs
  | Some m => if Nat.leb (length xs) m then xs else map (fun t => nth t xs d) S
  end.

(* all sublists of length n (as lists of elements, order preserved) *)
Fixpoint subsets {X} (n : nat) (l : list X) : list (list X) :=
  match n, l with
  | 0, _ => [[]]
  | S _, [] => []
  | S n', x :: r => map (cons x) (subsets n' r) ++ subsets n r
  end.
