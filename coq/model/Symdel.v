(* C01 / C03 / C07 / C10 / C14: the symmetric-delete search of nn.symdel / nn.SymdelDB.
   The pair filter `keep a b = Some d` says "report this pair with value d"; the three
   modes of the code (Levenshtein, Hamming, custom distance) are instances (below).
   Definitions only. *)
From Coq Require Import List NArith QArith Bool Arith.
From PV Require Import lib.Edits lib.LevDP lib.Str.
Import ListNotations.

Definition nodups (l : list str) : list str := nodup str_eq_dec l.
(* _comb_gen: the set of strings obtained by deleting at most k characters *)
Definition comb_gen (k : nat) (s : str) : list str := nodups (dels k s).

Definition sget (seqs : list str) (i : nat) : str := nth i seqs [].

(* variant_dict: key -> ascending list of the positions whose variants contain the key *)
Definition dict_keys (k : nat) (seqs : list str) : list str := nodups (flat_map (comb_gen k) seqs).
Definition bucket (k : nat) (seqs : list str) (c : str) : list nat :=
  filter (fun i => memb str_eq_dec c (comb_gen k (sget seqs i))) (seq 0 (length seqs)).

(* itertools.combinations(values, 2) *)
Fixpoint combs2 (l : list nat) : list (nat * nat) :=
  match l with [] => [] | x :: r => map (fun y => (x, y)) r ++ combs2 r end.

Section Engine.
Context {D : Type}.
Variable eqD : forall a b : D, {a = b} + {a <> b}.
Variable keep : str -> str -> option D.

Definition trip_eq_dec : forall a b : nat * nat * D, {a = b} + {a <> b}.
Proof. decide equality. decide equality; apply Nat.eq_dec. Defined.

(* symdel, self mode: every 2-combination of every bucket, both orientations, collected in a set *)
Definition symdel_self (k : nat) (seqs : list str) : list (nat * nat * D) :=
  nodup trip_eq_dec
    (flat_map (fun c =>
       flat_map (fun ij => match keep (sget seqs (fst ij)) (sget seqs (snd ij)) with
                           | Some d => [(fst ij, snd ij, d); (snd ij, fst ij, d)]
                           | None => [] end)
                (combs2 (bucket k seqs c)))
     (dict_keys k seqs)).

(* SymdelDB.lookup: per query the set of reference positions sharing a variant, then the filter *)
Definition cand_refs (k : nat) (refs : list str) (q : str) : list nat :=
  nodup Nat.eq_dec (flat_map (bucket k refs) (comb_gen k q)).
Definition symdel_lookup (k : nat) (refs queries : list str) : list (nat * nat * D) :=
  flat_map (fun i =>
     flat_map (fun j => match keep (sget queries i) (sget refs j) with
                        | Some d => [(i, j, d)] | None => [] end)
              (cand_refs k refs (sget queries i)))
   (seq 0 (length queries)).

(* specification both reduce to: all position pairs passed through the filter *)
Definition all_pairs_self (seqs : list str) : list (nat * nat * D) :=
  flat_map (fun i => flat_map (fun j =>
     if Nat.eqb i j then [] else
     match keep (sget seqs i) (sget seqs j) with Some d => [(i, j, d)] | None => [] end)
     (seq 0 (length seqs))) (seq 0 (length seqs)).
Definition all_pairs_cross (refs queries : list str) : list (nat * nat * D) :=
  flat_map (fun i => flat_map (fun j =>
     match keep (sget queries i) (sget refs j) with Some d => [(i, j, d)] | None => [] end)
     (seq 0 (length refs))) (seq 0 (length queries)).
End Engine.

(* ---- the pair filters of the three modes ---- *)
Definition keep_lev (k : nat) (a b : str) : option nat :=
  let d := slev_x a b in if Nat.leb d k then Some d else None.
Definition keep_ham (k : nat) (a b : str) : option nat :=
  match sham a b with Some h => if Nat.leb h k then Some h else None | None => None end.
(* custom distance: inside the Levenshtein radius AND inside the custom radius (None = infinite) *)
Definition qle_opt (x : Q) (m : option Q) : bool :=
  match m with None => true | Some y => Qle_bool x y end.
Definition keep_custom (cust : str -> str -> Q) (k : nat) (maxc : option Q) (a b : str) : option Q :=
  if Nat.leb (slev_x a b) k && qle_opt (cust a b) maxc then Some (cust a b) else None.

Definition Q_eq_dec : forall a b : Q, {a = b} + {a <> b}.
Proof. decide equality; [apply Pos.eq_dec | apply Z.eq_dec]. Defined.

(* a few symmetric custom distances with d(x,x) = 0, implemented identically in the harness *)
Definition sumcodes (s : str) : N := fold_left N.add s 0%N.
Definition custom_dist (which : nat) (a b : str) : Q :=
  match which with
  | 0%nat => inject_Z (Z.of_nat (slev_x a b))
  | 1%nat => inject_Z (3 * Z.of_nat (slev_x a b))
  | 2%nat => Z.of_nat (slev_x a b) # 2
  | 3%nat => inject_Z (Z.abs (Z.of_nat (length a) - Z.of_nat (length b)))
  | 4%nat => inject_Z (Z.of_nat (wlev_dp N.eq_dec 2 2 3 a b))
  | 6%nat => inject_Z (100001 * Z.of_nat (slev_x a b))      (* values of order 10^5: a RELATIVE tolerance on a radius would show *)
  | _ => if str_eqb a b then 0%Q else inject_Z (Z.of_N (N.modulo (sumcodes a + sumcodes b) 7))
  end.
