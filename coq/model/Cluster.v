(* C15: graph connectivity and an executable component labelling. Definitions only. *)
From Coq Require Import List Arith Bool.
Import ListNotations.

Definition edge := (nat * nat)%type.

(* undirected path connectivity over an edge list *)
Inductive connected (E : list edge) : nat -> nat -> Prop :=
| conn_refl u : connected E u u
| conn_step u v w : connected E u v -> (In (v, w) E \/ In (w, v) E) -> connected E u w.

(* naive union: processing edge (x,y) relabels every node carrying y's label with x's label *)
Definition merge (lab : list nat) (e : edge) : list nat :=
  let a := nth (fst e) lab 0 in
  let b := nth (snd e) lab 0 in
  map (fun l => if Nat.eqb l b then a else l) lab.
Definition components (n : nat) (E : list edge) : list nat := fold_left merge E (seq 0 n).

Definition edges_ok (n : nat) (E : list edge) : Prop := Forall (fun e => fst e < n /\ snd e < n) E.

(* graph_clustering('cc'): label, keep nodes whose cluster has more than one member *)
Definition cluster_size (lab : list nat) (c : nat) : nat := count_occ Nat.eq_dec lab c.
Definition graph_cc (n : nat) (E : list edge) : list (nat * nat) :=
  let lab := components n E in
  filter (fun p => Nat.ltb 1 (cluster_size lab (snd p))) (combine (seq 0 n) lab).

(* P refines Q: nodes with the same P-label have the same Q-label *)
Definition refines (P Q : list nat) : bool :=
  forallb (fun i => forallb (fun j => implb (Nat.eqb (nth i P 0) (nth j P 0)) (Nat.eqb (nth i Q 0) (nth j Q 0)))
                            (seq 0 (length P))) (seq 0 (length P)).

(* ---------- naive agglomerative single-linkage clustering over a distance function on n points ---------- *)
(* first element with the smallest key (ties: the earliest) *)
Fixpoint argmin {X : Type} (f : X -> nat) (l : list X) : option X :=
  match l with
  | [] => None
  | x :: l' => match argmin f l' with
               | None => Some x
               | Some y => if Nat.ltb (f y) (f x) then Some y else Some x
               end
  end.
(* every way of taking one element out of a list: (element, the others) *)
Fixpoint picks {X : Type} (l : list X) : list (X * list X) :=
  match l with
  | [] => []
  | x :: l' => (x, l') :: map (fun yr => (fst yr, x :: snd yr)) (picks l')
  end.
(* every ordered way of taking two elements out: (first, second, the others) *)
Definition pairs2 {X : Type} (l : list X) : list (X * X * list X) :=
  flat_map (fun xr => map (fun ys => (fst xr, fst ys, snd ys)) (picks (snd xr))) (picks l).

(* single-linkage distance of two clusters: the minimum point distance (0 only for an empty cluster, which never occurs) *)
Definition cdist (D : nat -> nat -> nat) (A B : list nat) : nat :=
  match argmin (fun p => D (fst p) (snd p)) (list_prod A B) with
  | Some p => D (fst p) (snd p)
  | None => 0
  end.
Definition sl_key (D : nat -> nat -> nat) (abr : list nat * list nat * list (list nat)) : nat :=
  cdist D (fst (fst abr)) (snd (fst abr)).
(* one agglomeration step: merge the two clusters at minimum inter-cluster minimum distance;
   returns (members of the new cluster, height, new list of clusters) *)
Definition sl_step (D : nat -> nat -> nat) (cl : list (list nat)) : option (list nat * nat * list (list nat)) :=
  match argmin (sl_key D) (pairs2 cl) with
  | None => None
  | Some abr => let A := fst (fst abr) in let B := snd (fst abr) in
                Some (A ++ B, cdist D A B, (A ++ B) :: snd abr)
  end.
(* the dendrogram as the list of merges (members, height), in merge order *)
Fixpoint sl_run (fuel : nat) (D : nat -> nat -> nat) (cl : list (list nat)) : list (list nat * nat) :=
  match fuel with
  | 0 => []
  | S f => match sl_step D cl with
           | None => []
           | Some mhc => (fst mhc) :: sl_run f D (snd mhc)
           end
  end.
Definition singletons (n : nat) : list (list nat) := map (fun i => [i]) (seq 0 n).
Definition single_linkage (n : nat) (D : nat -> nat -> nat) : list (list nat * nat) := sl_run n D (singletons n).

(* fcluster(criterion='distance', t): join everything merged at height <= t *)
Definition star (M : list nat) : list edge :=
  match M with [] => [] | a :: l => map (fun b => (a, b)) l end.
Definition cut_edges (t : nat) (dendro : list (list nat * nat)) : list edge :=
  flat_map (fun mh => if Nat.leb (snd mh) t then star (fst mh) else []) dendro.
Definition sl_cut (n : nat) (D : nat -> nat -> nat) (t : nat) : list nat :=
  components n (cut_edges t (single_linkage n D)).

(* the graph on 0..n-1 with an edge for every pair of distinct points at distance <= t *)
Definition threshold_graph (n : nat) (D : nat -> nat -> nat) (t : nat) : list edge :=
  filter (fun ij => negb (Nat.eqb (fst ij) (snd ij)) && Nat.leb (D (fst ij) (snd ij)) t)
         (list_prod (seq 0 n) (seq 0 n)).
(* a distance function read from a square matrix *)
Definition mat_dist (M : list (list nat)) (i j : nat) : nat := nth j (nth i M []) 0.

(* the Levenshtein distance matrix of a sequence list (what Levenshtein().calc_cdist_matrix(seqs, seqs) holds) *)
From Coq Require Import NArith.
From PV Require Import lib.Str lib.Condensed.
Definition lev_matrix (seqs : list str) : list (list nat) := cdist_loop slev_x seqs seqs.
