(* C15: graph connectivity and an executable component labelling. Definitions only. *)
From Coq Require Import List Arith Bool.
Import ListNotations.

Definition edge := (nat * nat)%type.

(* undirected path connectivity over an edge list *)
Inductive connected (E : list edge) : nat -> nat -> Prop :=
| conn_refl u : connected E u u
| conn_step u v w : connected E u v -> (In (v, w) E \/ In (w, v) E) -> connected E u w.

(* naive union: processing edge (x,y) relabels every node carrying y's label with x's label *)
Definition merge (lab : list nat) (e : edge) : list nat :=
  let a := nth (fst e) lab 0 in
  let b := nth (snd e) lab 0 in
  map (fun l => if Nat.eqb l b then a else l) lab.
Definition components (n : nat) (E : list edge) : list nat := fold_left merge E (seq 0 n).

Definition edges_ok (n : nat) (E : list edge) : Prop := Forall (fun e => fst e < n /\ snd e < n) E.

(* graph_clustering('cc'): label, keep nodes whose cluster has more than one member *)
Definition cluster_size (lab : list nat) (c : nat) : nat := count_occ Nat.eq_dec lab c.
Definition graph_cc (n : nat) (E : list edge) : list (nat * nat) :=
  let lab := components n E in
  filter (fun p => Nat.ltb 1 (cluster_size lab (snd p))) (combine (seq 0 n) lab).

(* P refines Q: nodes with the same P-label have the same Q-label *)
Definition refines (P Q : list nat) : bool :=
  forallb (fun i => forallb (fun j => implb (Nat.eqb (nth i P 0) (nth j P 0)) (Nat.eqb (nth i Q 0) (nth j Q 0)))
                            (seq 0 (length P))) (seq 0 (length P)).
