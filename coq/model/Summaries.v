(* C19: string summaries (regex / consensus / count matrix) and the data encoded by the plots
   (rank-frequency curve, label colours, discrete density scatter, split cluster map).
   Definitions only; proofs in proofs/SummariesP.v. *)
From Coq Require Import List NArith ZArith QArith Bool Arith.
From PV Require Import lib.Edits lib.LevDP lib.Str lib.Condensed.
Import ListNotations.
Close Scope Q_scope.
Open Scope nat_scope.

(* ------------------------------------------------------------------ generic insertion sort *)
Section Sort.
Context {X : Type}.
Variable leb : X -> X -> bool.
Fixpoint insert (x : X) (l : list X) : list X :=
  match l with
  | [] => [x]
  | y :: r => if leb x y then x :: l else y :: insert x r
  end.
Definition isort (l : list X) : list X := fold_right insert [] l.
End Sort.

(* ------------------------------------------------------------------ logomaker.alignment_to_matrix *)
(* characters_to_ignore = '.-' *)
Definition is_gap (c : N) : bool := N.eqb c 46 || N.eqb c 45.
Definition residue (c : N) : bool := negb (is_gap c).
Definition strip_gaps (s : str) : str := filter residue s.

(* np.unique: strictly increasing list of the distinct values *)
Fixpoint ins_uniq (c : N) (l : list N) : list N :=
  match l with
  | [] => [c]
  | x :: r => if N.ltb c x then c :: l else if N.eqb c x then l else x :: ins_uniq c r
  end.
Definition sort_uniq (l : list N) : list N := fold_right ins_uniq [] l.

(* the columns of the matrix: distinct characters of the whole alignment, sorted, gap characters removed *)
Definition alphabet (seqs : list str) : list N := filter residue (sort_uniq (concat seqs)).
(* char_array[:, p] *)
Definition column (seqs : list str) (p : nat) : list N :=
  flat_map (fun s => match nth_error s p with Some c => [c] | None => [] end) seqs.
Definition cnt (seqs : list str) (p : nat) (c : N) : nat := count_occ N.eq_dec (column seqs p) c.
Definition width (seqs : list str) : nat := length (hd [] seqs).
Definition count_row (seqs : list str) (p : nat) : list nat := map (cnt seqs p) (alphabet seqs).
Definition count_matrix (seqs : list str) : list (list nat) := map (count_row seqs) (seq 0 (width seqs)).
Definition row_total (seqs : list str) (p : nat) : nat := list_sum (count_row seqs p).

(* ------------------------------------------------------------------ seqs_to_regex(align=False) *)
(* the emitted regex subset: a sequence of items, each a literal / character class, possibly optional *)
Definition item := (list N * bool)%type.
Definition observed (seqs : list str) (p : nat) : list N := filter (fun c => Nat.ltb 0 (cnt seqs p c)) (alphabet seqs).
Definition item_at (seqs : list str) (p : nat) : item :=
  (observed seqs p, negb (Nat.eqb (row_total seqs p) (length seqs))).
Definition regex_of (seqs : list str) : list item := map (item_at seqs) (seq 0 (width seqs)).
(* concrete syntax: '[' = 91, ']' = 93, '?' = 63 *)
Definition render_item (it : item) : str :=
  (if Nat.ltb 1 (length (fst it)) then [91%N] ++ fst it ++ [93%N] else fst it) ++ (if snd it then [63%N] else []).
Definition render (r : list item) : str := flat_map render_item r.

(* full-match semantics of that subset *)
Inductive rmatch : list item -> str -> Prop :=
| rm_nil : rmatch [] []
| rm_take cls opt r c t : In c cls -> rmatch r t -> rmatch ((cls, opt) :: r) (c :: t)
| rm_skip cls r t : rmatch r t -> rmatch ((cls, true) :: r) t.
Fixpoint matchesb (r : list item) (t : str) : bool :=
  match r with
  | [] => match t with [] => true | _ => false end
  | (cls, opt) :: r' =>
      (opt && matchesb r' t) ||
      match t with c :: t' => memb N.eq_dec c cls && matchesb r' t' | [] => false end
  end.

(* ------------------------------------------------------------------ seqs_to_consensus(align=False) *)
(* row.idxmax(): first column label with the maximal value *)
Fixpoint argmax_first (f : N -> nat) (l : list N) : option N :=
  match l with
  | [] => None
  | c :: r => match argmax_first f r with
              | Some d => if Nat.ltb (f c) (f d) then Some d else Some c
              | None => Some c
              end
  end.
Definition kept_col (seqs : list str) (p : nat) : bool :=
  negb (Nat.ltb (Nat.div (length seqs) 2) (length seqs - row_total seqs p)).
Definition consensus_cols (seqs : list str) : list (nat * N) :=
  flat_map (fun p => if kept_col seqs p
                     then match argmax_first (cnt seqs p) (alphabet seqs) with Some c => [(p, c)] | None => [] end
                     else []) (seq 0 (width seqs)).
Definition consensus (seqs : list str) : str := map snd (consensus_cols seqs).
(* executable specification, evaluated on the string the implementation returned *)
Definition kept_positions (seqs : list str) : list nat := filter (kept_col seqs) (seq 0 (width seqs)).
Definition is_mode (seqs : list str) (p : nat) (c : N) : bool :=
  residue c && Nat.ltb 0 (cnt seqs p c) && forallb (fun d => Nat.leb (cnt seqs p d) (cnt seqs p c)) (alphabet seqs).
Fixpoint all2 {A B} (f : A -> B -> bool) (la : list A) (lb : list B) : bool :=
  match la, lb with
  | [], [] => true
  | a :: ra, b :: rb => f a b && all2 f ra rb
  | _, _ => false
  end.
Definition consensus_ok (seqs : list str) (out : str) : bool := all2 (is_mode seqs) (kept_positions seqs) out.

(* ------------------------------------------------------------------ rankfrequency *)
Open Scope Q_scope.
Definition nonmissing (data : list (option Q)) : list Q :=
  flat_map (fun o => match o with Some q => [q] | None => [] end) data.
Definition qsum (l : list Q) : Q := fold_right Qplus 0 l.
Definition qzero (q : Q) : bool := Z.eqb (Qnum q) 0.
Definition qge_bool (a b : Q) : bool := Qle_bool b a.
(* data / np.sum(data); None when values are present and their sum is zero (NumPy yields nan / inf there: outside the
   stated domain); an empty vector stays empty *)
Definition normalised (normx : bool) (l : list Q) : option (list Q) :=
  if normx then (if qzero (qsum l) then match l with [] => Some [] | _ => None end
                 else Some (map (fun v => v / qsum l) l)) else Some l.
Definition rank_x (normx : bool) (scalex : Q) (data : list (option Q)) : option (list Q) :=
  option_map (fun l => map (fun v => v * scalex) (isort qge_bool l)) (normalised normx (nonmissing data)).
Definition qnat (n : nat) : Q := inject_Z (Z.of_nat n).
Definition rank_y (normy : bool) (scaley : Q) (m : nat) : list Q :=
  map (fun r => scaley * qnat r / (if normy then qnat m else 1)) (seq 0 m).
Definition rank_xy (normx normy : bool) (scalex scaley : Q) (data : list (option Q)) : option (list Q * list Q) :=
  option_map (fun xs => (xs, rank_y normy scaley (length xs))) (rank_x normx scalex data).
Close Scope Q_scope.

(* ------------------------------------------------------------------ labels_to_colors_* *)
Fixpoint index_of (c : N) (l : list N) : option nat :=
  match l with
  | [] => None
  | x :: r => if N.eqb c x then Some 0 else option_map S (index_of c r)
  end.
Definition lcount (labels : list N) (c : N) : nat := count_occ N.eq_dec labels c.
(* np.unique(labels, return_counts=True) then label[count >= min_count] *)
Definition frequent (min_count : option nat) (labels : list N) : list N :=
  filter (fun c => match min_count with None => true | Some m => Nat.leb m (lcount labels c) end) (sort_uniq labels).
(* lut = dict(zip(shuffled labels, palette)); [lut[n] if n in lut else black for n in labels].
   `order` is the shuffled label array (any permutation of the frequent labels), `pal i` the i-th colour drawn from the palette *)
Section Colours.
Context {C : Type}.
Variable pal : nat -> C.
Variable black : C.
Definition colour_of (order : list N) (c : N) : C :=
  match index_of c order with Some i => pal i | None => black end.
Definition colours (order : list N) (labels : list N) : list C := map (colour_of order) labels.
End Colours.
Definition valid_order (min_count : option nat) (labels order : list N) : bool :=
  Nat.eqb (length order) (length (frequent min_count labels)) &&
  (if list_eq_dec N.eq_dec (sort_uniq order) (frequent min_count labels) then true else false).
(* colour slots (None = black); period 0 = palette as long as needed, period p = colour cycle of length p *)
Definition slot_pal (period : nat) (i : nat) : option nat := Some (if Nat.eqb period 0 then i else Nat.modulo i period).
Definition colour_slots (min_count : option nat) (period : nat) (order labels : list N) : option (list (option nat)) :=
  if valid_order min_count labels order then Some (colours (slot_pal period) None order labels) else None.

(* ------------------------------------------------------------------ density_scatter(discrete=True) *)
Definition zpair := (Z * Z)%type.
Definition zpair_eq_dec : forall a b : zpair, {a = b} + {a <> b}.
Proof. decide equality; apply Z.eq_dec. Defined.
Definition lex_leb (a b : zpair) : bool := Z.ltb (fst a) (fst b) || (Z.eqb (fst a) (fst b) && Z.leb (snd a) (snd b)).
(* np.unique(np.array(list(zip(x, y))), return_counts=True, axis=0): distinct rows in lexicographic order, with counts *)
Definition discrete_points (xs ys : list Z) : list (zpair * nat) :=
  let pts := combine xs ys in
  map (fun p => (p, count_occ zpair_eq_dec pts p)) (isort lex_leb (nodup zpair_eq_dec pts)).
(* idx = z.argsort(): ascending multiplicity (order among equal multiplicities is not specified by NumPy; the model is stable) *)
Definition by_count (a b : zpair * nat) : bool := Nat.leb (snd a) (snd b).
Definition discrete_sorted (xs ys : list Z) : list (zpair * nat) := isort by_count (discrete_points xs ys).

(* ------------------------------------------------------------------ similarity_clustermap *)
Definition mget (M : list (list nat)) (i j : nat) : nat := nth j (nth i M []) 0.
Definition mat_tab (m : nat) (f : nat -> nat -> nat) : list (list nat) := map (fun i => map (f i) (seq 0 m)) (seq 0 m).
(* scipy squareform of a condensed vector *)
Definition square (n : nat) (cond : list nat) : list (list nat) :=
  mat_tab n (fun i j => if Nat.ltb i j then nth (cidx n i j) cond 0
                        else if Nat.ltb j i then nth (cidx n j i) cond 0 else 0).
(* DataFrame.iloc[yind, xind] with yind = xind = order *)
Definition reorder (M : list (list nat)) (order : list nat) : list (list nat) :=
  mat_tab (length order) (fun i j => mget M (nth i order 0) (nth j order 0)).
Definition tril (M : list (list nat)) : list (list nat) := mat_tab (length M) (fun i j => if Nat.leb j i then mget M i j else 0).
Definition triu (M : list (list nat)) : list (list nat) := mat_tab (length M) (fun i j => if Nat.leb i j then mget M i j else 0).
Definition madd (A B : list (list nat)) : list (list nat) := mat_tab (length A) (fun i j => mget A i j + mget B i j).
Definition split_matrix (Lo Up : list (list nat)) (order : list nat) : list (list nat) :=
  madd (tril (reorder Lo order)) (triu (reorder Up order)).

Definition pdist_lev (seqs : list str) : list nat := pdist_loop slev_x [] seqs.
Fixpoint vadd (a b : list nat) : list nat :=
  match a, b with x :: ra, y :: rb => (x + y) :: vadd ra rb | _, _ => [] end.
(* paired chains: linkage on alpha + beta distances, heat map alpha below / beta above the diagonal *)
Definition summed_distances (alpha beta : list str) : list nat := vadd (pdist_lev alpha) (pdist_lev beta).
Definition clustermap_matrix (alpha beta : list str) (order : list nat) : list (list nat) :=
  split_matrix (square (length alpha) (pdist_lev alpha)) (square (length beta) (pdist_lev beta)) order.
