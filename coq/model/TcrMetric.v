(* C09: the TcrLevenshtein family (pyrepseq/metric/tcr_metric/tcr_levenshtein.py, tcr_metric.py).
   Definitions only; proofs in proofs/TcrMetricP.v.

   A table row is (TRAV, CDR3A, TRBV, CDR3B); the gene reference is a function allele -> (CDR1, CDR2)
   ("" when the allele has no such loop) - tidytcells on the Python side, an input of the model.
   The model follows the code: validation, expansion of the V genes into CDR1/CDR2 columns, the list of column
   NAMES of _get_columns_to_compare (generated), one cdist matrix per column scaled by the weights that the
   substring tests on the column name select (generated), entrywise sum of the matrices, squareform. *)
From Coq Require Import List NArith Bool Arith.
From PV Require Import lib.Edits lib.LevDP lib.Str lib.Condensed gen.Gen_c09.
Import ListNotations.

Inductive chain := Alpha | Beta.
Inductive loop := L1 | L2 | L3.

Record row := mkrow { trav : str; cdr3a : str; trbv : str; cdr3b : str }.
Definition row0 : row := mkrow [] [] [] [].

(* constructor arguments of TcrLevenshtein.__init__ *)
Record cfg := mkcfg { wi : nat; wd : nat; ws : nat;
                      w_alpha : N; w_beta : N; w_cdr1 : N; w_cdr2 : N; w_cdr3 : N }.

Definition weight_val (c : cfg) (w : c09_weight) : N :=
  match w with WAlpha => w_alpha c | WBeta => w_beta c | WCdr1 => w_cdr1 c | WCdr2 => w_cdr2 c | WCdr3 => w_cdr3 c end.
Definition chain_weight (c : cfg) (ch : chain) : N := match ch with Alpha => w_alpha c | Beta => w_beta c end.
Definition loop_weight (c : cfg) (l : loop) : N := match l with L1 => w_cdr1 c | L2 => w_cdr2 c | L3 => w_cdr3 c end.

(* ---- column names and the substring tests on them ---- *)
(* Python `p in s` on strings *)
Fixpoint prefixb (p s : str) : bool :=
  match p, s with
  | [], _ => true
  | _ :: _, [] => false
  | x :: p', y :: s' => N.eqb x y && prefixb p' s'
  end.
Fixpoint substrb (p s : str) : bool :=
  prefixb p s || match s with [] => false | _ :: s' => substrb p s' end.

(* one if/elif chain: the first test that succeeds selects the weight; none -> no multiplication *)
Fixpoint select (tests : list (str * c09_weight)) (col : str) : option c09_weight :=
  match tests with
  | [] => None
  | (p, w) :: tests' => if substrb p col then Some w else select tests' col
  end.
Definition col_selectors (col : str) : list (option c09_weight) :=
  map (fun tests => select tests col) gen_c09_weight_tests.
(* cdist *= w ; cdist *= w' ... applied to one entry *)
Definition apply_weights (c : cfg) (col : str) (d : N) : N :=
  fold_left (fun acc ow => match ow with Some w => (acc * weight_val c w)%N | None => acc end) (col_selectors col) d.

(* the six loop columns of the (expanded) frame *)
Definition chain_letter (ch : chain) : N := match ch with Alpha => 65 | Beta => 66 end.       (* A B *)
Definition loop_digit (l : loop) : N := match l with L1 => 49 | L2 => 50 | L3 => 51 end.      (* 1 2 3 *)
Definition col_name (lc : loop * chain) : str := [67; 68; 82; loop_digit (fst lc); chain_letter (snd lc)]%N.  (* "CDR" *)
Definition all_cols : list (loop * chain) :=
  [(L1, Alpha); (L2, Alpha); (L3, Alpha); (L1, Beta); (L2, Beta); (L3, Beta)].
Definition col_decode (name : str) : option (loop * chain) :=
  find (fun lc => str_eqb (col_name lc) name) all_cols.
Fixpoint decode_all (names : list str) : option (list (loop * chain)) :=
  match names with
  | [] => Some []
  | n :: names' => match col_decode n, decode_all names' with
                   | Some lc, Some r => Some (lc :: r)
                   | _, _ => None
                   end
  end.

Definition s_TRAV : str := [84; 82; 65; 86]%N.
Definition s_TRBV : str := [84; 82; 66; 86]%N.

(* ---- matrices ---- *)
Fixpoint zipw {X : Type} (h : X -> X -> X) (a b : list X) : list X :=
  match a, b with x :: a', y :: b' => h x y :: zipw h a' b' | _, _ => [] end.
Definition mat_add (a b : list (list N)) : list (list N) := zipw (zipw N.add) a b.
(* Python sum(list of arrays) = ((0 + m1) + m2) + ...; never called on an empty list here *)
Definition mat_sum (ms : list (list (list N))) : list (list N) :=
  match ms with [] => [] | m :: ms' => fold_left mat_add ms' m end.
Definition sumN (l : list N) : N := fold_right N.add 0%N l.

(* ---- the public calls, with validation ---- *)
(* what a caller may pass: anything that is not a DataFrame, or a frame with column names and labelled rows *)
Inductive pyobj := NotFrame | Frame (cols : list str) (rows : list (str * row)).
Inductive outcome (T : Type) := ValueErr | OtherErr | Ok (v : T).
Arguments ValueErr {T}. Arguments OtherErr {T}. Arguments Ok {T} v.

Definition has_col (cols : list str) (name : str) : bool := memb str_eq_dec name cols.
(* tcr_metric.is_in_standard_format *)
Definition is_tcr_table (x : pyobj) : bool :=
  match x with
  | NotFrame => false
  | Frame cols _ => existsb (fun name => has_col gen_c09_tcr_columns name) cols
  end.
Definition rows_of (x : pyobj) : list row := match x with NotFrame => [] | Frame _ rows => map snd rows end.
Definition cols_of (x : pyobj) : list str := match x with NotFrame => [] | Frame cols _ => cols end.
(* columns the computation reads from the caller's frame: TRAV and TRBV when the V genes are expanded
   (_expand_v_gene_cdrs reads both whatever the chain scope), and the CDR3 columns in scope *)
Definition needed_cols (cs : c09_chain_scope) (ls : c09_cdr_scope) : list str :=
  (match ls with AllCdr => [s_TRAV; s_TRBV] | Cdr3Only => [] end)
  ++ filter (fun name => match col_decode name with Some (L3, _) => true | Some _ => false | None => true end)
            (gen_c09_columns cs ls).
Definition frame_ready (cs : c09_chain_scope) (ls : c09_cdr_scope) (x : pyobj) : bool :=
  forallb (has_col (cols_of x)) (needed_cols cs ls).


Section Genes.
(* allele -> (CDR1, CDR2); "" when the allele has no such loop *)
Variable genes : str -> str * str.

(* cell of the frame after _expand_v_gene_cdrs (CDR3 columns are the caller's) *)
Definition loop_seq (lc : loop * chain) (r : row) : str :=
  match lc with
  | (L3, Alpha) => cdr3a r
  | (L3, Beta) => cdr3b r
  | (L1, Alpha) => fst (genes (trav r))
  | (L2, Alpha) => snd (genes (trav r))
  | (L1, Beta) => fst (genes (trbv r))
  | (L2, Beta) => snd (genes (trbv r))
  end.

(* _calc_cdist_matrix_for_column, one entry / the matrix *)
Definition col_entry (c : cfg) (lc : loop * chain) (a b : row) : N :=
  apply_weights c (col_name lc)
    (N.of_nat (wlev_dp N.eq_dec (wi c) (wd c) (ws c) (loop_seq lc a) (loop_seq lc b))).
Definition col_matrix (c : cfg) (A B : list row) (lc : loop * chain) : list (list N) :=
  cdist_loop (col_entry c lc) A B.

(* entry of the summed matrix, as a function of the two rows only *)
Definition tcr_entry (c : cfg) (lcs : list (loop * chain)) (a b : row) : N :=
  sumN (map (fun lc => col_entry c lc a b) lcs).

(* TcrLevenshtein.calc_cdist_matrix on the rows of two accepted frames; None = a generated column name is
   not a column of the expanded frame (KeyError) *)
Definition tcr_cdist (c : cfg) (cs : c09_chain_scope) (ls : c09_cdr_scope) (A B : list row) : option (list (list N)) :=
  match decode_all (gen_c09_columns cs ls) with
  | Some lcs => Some (mat_sum (map (col_matrix c A B) lcs))
  | None => None
  end.

(* ---- the public calls ---- *)
Definition calc_cdist_matrix (c : cfg) (cs : c09_chain_scope) (ls : c09_cdr_scope) (a b : pyobj) : outcome (list (list N)) :=
  if negb (is_tcr_table a) then ValueErr
  else if negb (is_tcr_table b) then ValueErr
  else if frame_ready cs ls a && frame_ready cs ls b then
    match tcr_cdist c cs ls (rows_of a) (rows_of b) with Some m => Ok m | None => OtherErr end
  else OtherErr.

Definition calc_pdist_vector (c : cfg) (cs : c09_chain_scope) (ls : c09_cdr_scope) (x : pyobj) : outcome (list N) :=
  if negb (is_tcr_table x) then ValueErr
  else match calc_cdist_matrix c cs ls x x with
       | Ok m => Ok (squareform_vec 0%N m)
       | ValueErr => ValueErr
       | OtherErr => OtherErr
       end.

(* ---- specification ---- *)
Definition chains_of (cs : c09_chain_scope) : list chain :=
  match cs with Paired => [Alpha; Beta] | AlphaOnly => [Alpha] | BetaOnly => [Beta] end.
Definition loops_of (ls : c09_cdr_scope) : list loop :=
  match ls with AllCdr => [L1; L2; L3] | Cdr3Only => [L3] end.
(* the stated double sum; wlev is the specification-level weighted edit distance of lib/Edits.v
   (= minimum alignment cost, C08_weighted_optimal) *)
Definition spec_entry (c : cfg) (cs : c09_chain_scope) (ls : c09_cdr_scope) (a b : row) : N :=
  sumN (map (fun ch => sumN (map (fun l =>
      (chain_weight c ch * loop_weight c l *
       N.of_nat (wlev N.eq_dec (wi c) (wd c) (ws c) (loop_seq (l, ch) a) (loop_seq (l, ch) b)))%N)
    (loops_of ls))) (chains_of cs)).

(* storage guard: every entry is at most this bound (deleting all of one loop, inserting all of the other) *)
Definition spec_bound (c : cfg) (cs : c09_chain_scope) (ls : c09_cdr_scope) (a b : row) : N :=
  sumN (map (fun ch => sumN (map (fun l =>
      (chain_weight c ch * loop_weight c l *
       N.of_nat (wd c * length (loop_seq (l, ch) a) + wi c * length (loop_seq (l, ch) b)))%N)
    (loops_of ls))) (chains_of cs)).

(* executable form of the specification (the row DP in place of the recursive wlev), what the oracle runs as
   `spec`: proved equal to spec_entry in proofs/TcrMetricP.v.  Independent of every generated fact. *)
Definition spec_entry_x (c : cfg) (cs : c09_chain_scope) (ls : c09_cdr_scope) (a b : row) : N :=
  sumN (map (fun ch => sumN (map (fun l =>
      (chain_weight c ch * loop_weight c l *
       N.of_nat (wlev_dp N.eq_dec (wi c) (wd c) (ws c) (loop_seq (l, ch) a) (loop_seq (l, ch) b)))%N)
    (loops_of ls))) (chains_of cs)).
Definition spec_cdist (c : cfg) (cs : c09_chain_scope) (ls : c09_cdr_scope) (A B : list row) : list (list N) :=
  cdist_loop (spec_entry_x c cs ls) A B.
Definition spec_pdist (c : cfg) (cs : c09_chain_scope) (ls : c09_cdr_scope) (X : list row) : list N :=
  pdist_loop (spec_entry_x c cs ls) row0 X.
End Genes.

(* the six TCR column names of the standard format, as the property understands them (not generated) *)
Definition spec_tcr_columns : list str :=
  [[67;68;82;51;65]; [67;68;82;51;66]; [84;82;65;74]; [84;82;65;86]; [84;82;66;74]; [84;82;66;86]]%N.
Definition spec_is_table (x : pyobj) : bool :=
  match x with
  | NotFrame => false
  | Frame cols _ => existsb (fun name => has_col spec_tcr_columns name) cols
  end.

(* the single-chain classes take no chain weight (it is 1) *)
Definition unit_chain (c : cfg) : cfg := mkcfg (wi c) (wd c) (ws c) 1 1 (w_cdr1 c) (w_cdr2 c) (w_cdr3 c).
Definition accepted (cs : c09_chain_scope) (ls : c09_cdr_scope) (x : pyobj) : bool := is_tcr_table x && frame_ready cs ls x.
Definition entry_at (m : list (list N)) (i j : nat) : N := nth j (nth i m []) 0%N.

(* intended columns, in the order the code visits them: loops (3, 1, 2) outer, chains inner *)
Definition intended_columns (cs : c09_chain_scope) (ls : c09_cdr_scope) : list (loop * chain) :=
  flat_map (fun l => map (fun ch => (l, ch)) (chains_of cs))
           (match ls with AllCdr => [L3; L1; L2] | Cdr3Only => [L3] end).
Definition chain_sel (ch : chain) : c09_weight := match ch with Alpha => WAlpha | Beta => WBeta end.
Definition loop_sel (l : loop) : c09_weight := match l with L1 => WCdr1 | L2 => WCdr2 | L3 => WCdr3 end.

(* gene reference as an association list (what the oracle receives) *)
Fixpoint assoc_genes (tbl : list (str * (str * str))) (v : str) : str * str :=
  match tbl with
  | [] => ([], [])
  | (k, x) :: tbl' => if str_eqb k v then x else assoc_genes tbl' v
  end.
Definition known_gene (tbl : list (str * (str * str))) (v : str) : bool :=
  existsb (fun kx => str_eqb (fst kx) v) tbl.
