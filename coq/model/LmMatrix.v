(* logomaker / pandas vocabulary of util.seqs_to_regex and util.seqs_to_consensus (C19).  lm.alignment_to_matrix(seqs) is a table with one
   row of counts per position and one column per residue that occurs, columns in sorted order: (alphabet seqs, count_matrix seqs) of
   model/Summaries.v - that logomaker computes exactly this table is what the count-matrix correspondence of C19 exercises (C19_counts). *)
From Coq Require Import List Arith Bool NArith.
From PV Require Import lib.Str model.Summaries.
Import ListNotations.

Definition lm_matrix (seqs : list str) : list N * list (list nat) := (alphabet seqs, count_matrix seqs).

(* row[row > k].index: the column labels whose value exceeds k, in column order *)
Fixpoint row_index_gt (k : nat) (cols : list N) (row : list nat) : str :=
  match cols, row with
  | c :: cs, v :: vs => (if Nat.ltb k v then [c] else []) ++ row_index_gt k cs vs
  | _, _ => []
  end.

(* row.idxmax(): the FIRST column label holding the largest value (nothing for a table without columns) *)
Fixpoint row_argmax (cols : list N) (row : list nat) : option (N * nat) :=
  match cols, row with
  | c :: cs, v :: vs => match row_argmax cs vs with
                        | Some (d, w) => if Nat.ltb v w then Some (d, w) else Some (c, v)
                        | None => Some (c, v)
                        end
  | _, _ => None
  end.
Definition row_idxmax (cols : list N) (row : list nat) : str :=
  match row_argmax cols row with Some (c, _) => [c] | None => [] end.
