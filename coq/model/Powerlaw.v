(* C17: power-law utilities - executable definitions over Q (ln symbolic). Definitions only. *)
From Coq Require Import List QArith Qround Bool Arith ZArith.
From PV Require Import lib.Val.
Import ListNotations.
Open Scope Q_scope.

(* sum with a reduction after every step (keeps the oracle's numbers small); == sumQ *)
Fixpoint sumQr (l : list Q) : Q := match l with [] => 0 | x :: r => Qred (x + sumQr r) end.
Definition sumQrf (f : Q -> Q) (l : list Q) : Q := sumQr (map f l).
Definition lenQ (l : list Q) : Q := inject_Z (Z.of_nat (length l)).

(* the counts >= cmin *)
Definition keep_ge (cmin : Q) (c : list Q) : list Q := filter (fun x => Qle_bool cmin x) c.

(* documented closed forms of powerlaw_mle_alpha, for any function ln:
   'simple'               1 + n / sum ln(c/cmin)
   'continuitycorrection' 1 + n / sum ln(c/(cmin - 1/2))      over the counts c >= cmin, n their number *)
Definition mle_simple_doc (ln : Q -> Q) (c : list Q) (cmin : Q) : Q :=
  1 + lenQ (keep_ge cmin c) / sumQ (map (fun x => ln (x / cmin)) (keep_ge cmin c)).
Definition mle_cc_doc (ln : Q -> Q) (c : list Q) (cmin : Q) : Q :=
  1 + lenQ (keep_ge cmin c) / sumQ (map (fun x => ln (x / (cmin - (1 # 2)))) (keep_ge cmin c)).

(* ln given by a finite table (harness: high-precision decimal logarithms); d = value off the table *)
Fixpoint lookup_ln (tbl : list (Q * Q)) (d : Q) (x : Q) : Q :=
  match tbl with
  | [] => d
  | (a, v) :: r => if Qeq_bool a x then v else lookup_ln r d x
  end.

(* powerlaw_sample(size, xmin, alpha) returned vals: the requested number of integer-valued numbers >= xmin *)
Definition is_integerb (v : Q) : bool := Qeq_bool v (inject_Z (Qfloor v)).
Definition powerlaw_okb (size : nat) (xmin : Q) (vals : list Q) : bool :=
  Nat.eqb (length vals) size && forallb (fun v => Qle_bool xmin v && is_integerb v) vals.

(* 'exact': returned exponent a inside [lo, hi] and its log-likelihood ll_a not below any grid value minus tol *)
Definition exact_okb (lo hi a ll_a tol : Q) (grid : list Q) : bool :=
  Qle_bool lo a && Qle_bool a hi && forallb (fun g => Qle_bool (g - tol) ll_a) grid.
