(* C17: documented forms of the power-law utilities over the reals. Definitions only. *)
From Coq Require Import List Reals.
From PV Require Import gen.Gen_stats_R.
Import ListNotations.
Open Scope R_scope.

(* inverse-transform sample of the continuous approximation, Eq. D6 of Clauset et al., before rounding *)
Definition powerlaw_value (xmin alpha r : R) : R :=
  (xmin - 1/2) * Rpower (1 - r) (- 1 / (alpha - 1)) + 1/2.
(* what powerlaw_sample returns for the uniform draw r: floor of it *)
Definition powerlaw_sample_R (xmin alpha r : R) : R := IZR (Int_part (powerlaw_value xmin alpha r)).

(* the counts >= cmin *)
Definition keep_ge_R (cmin : R) (c : list R) : list R := filter (fun x => if Rle_dec cmin x then true else false) c.

Definition mle_simple_doc_R (c : list R) (cmin : R) : R :=
  1 + INR (length (keep_ge_R cmin c)) / sumR (map (fun x => ln (x / cmin)) (keep_ge_R cmin c)).
Definition mle_cc_doc_R (c : list R) (cmin : R) : R :=
  1 + INR (length (keep_ge_R cmin c)) / sumR (map (fun x => ln (x / (cmin - 1/2))) (keep_ge_R cmin c)).
