(* C03 / C04 / C07 / C11 / C14: the kdtree engine (nn.kdtree) and the hash engine
   (nn.LookupDB / nn.hash_based), generic in the pair filter.  Definitions only. *)
From Coq Require Import List NArith ZArith QArith Bool Arith.
From PV Require Import lib.Edits lib.LevDP lib.Str lib.Chunk model.Symdel model.Kdtree model.Nbrs.
Import ListNotations.
Close Scope Q_scope.
Open Scope nat_scope.

(* amino-acid alphabet as code points, in the order of io.aminoacids (generated constant: gen/Gen_consts.v
   is compared with this by props/C04.v) *)
Definition aa_letters : list N := [65;67;68;69;70;71;72;73;75;76;77;78;80;81;82;83;84;86;87;89]%N.
Fixpoint index_of (c : N) (l : list N) (i : nat) : nat :=
  match l with [] => i | x :: r => if N.eqb x c then i else index_of c r (S i) end.
(* _histogram_encode: letter number t goes to bin floor(t / compression); dimension ceil(20 / compression) *)
Definition aa_bin (compression : nat) (c : N) : nat := index_of c aa_letters 0 / compression.
Definition aa_dim (compression : nat) : nat := (length aa_letters + compression - 1) / compression.
Definition encode (compression : nat) (s : str) : list Z := hist (aa_bin compression) (aa_dim compression) s.

Section KD.
Context {D : Type}.
Variable keep : str -> str -> option D.
Variable key : D -> nat.             (* sort key for max_returns; only used when a limit is given *)

(* KDTree.query_ball_point contract: every point whose squared distance is <= r2, ascending index *)
Definition ball_query (r2 : Z) (pts : list (list Z)) (i : nat) : list nat :=
  filter (fun j => Z.leb (sqdist (nth i pts []) (nth j pts [])) r2) (seq 0 (length pts)).

(* _cal_levenshtein / _cal_custom_dist for one query position *)
Definition kd_row (limit : option nat) (seqs : list str) (i : nat) (cands : list nat) : list (nat * nat * D) :=
  top_m (fun t => key (snd t)) limit
    (flat_map (fun j => if Nat.eqb i j then [] else
                        match keep (sget seqs i) (sget seqs j) with Some d => [(i, j, d)] | None => [] end) cands).

Definition kdtree_model (k compression : nat) (limit : option nat) (seqs : list str) : list (nat * nat * D) :=
  let pts := map (encode compression) seqs in
  let r2 := (2 * Z.of_nat k * Z.of_nat k)%Z in
  flat_map (fun i => kd_row limit seqs i (ball_query r2 pts i)) (seq 0 (length seqs)).
End KD.

(* Hamming mode of kdtree: one independent search per length bucket (first-occurrence order of lengths),
   results mapped back to the positions of the input list *)
Definition length_buckets (seqs : list str) : list (list nat) :=
  let lens := nodup Nat.eq_dec (map (@length N) seqs) in
  map (fun L => filter (fun i => Nat.eqb (length (sget seqs i)) L) (seq 0 (length seqs))) lens.
Definition kdtree_hamming {D} (keep : str -> str -> option D) (key : D -> nat) (k compression : nat)
           (limit : option nat) (seqs : list str) : list (nat * nat * D) :=
  flat_map (fun pos =>
     map (fun t => (nth (fst (fst t)) pos 0, nth (snd (fst t)) pos 0, snd t))
         (kdtree_model keep key k compression limit (map (sget seqs) pos)))
   (length_buckets seqs).

Section Hash.
Context {D : Type}.
(* value of a pair once it is known to be inside the edit ball:
   Some d = report with value d, None = custom distance above max_custom_distance *)
Variable valf : str -> str -> option D.
Variable nb : str -> list str.       (* one-edit generator: lev_nbrs aa_letters or ham_nbrs aa_letters *)

Definition positions_of (refs : list str) (s : str) : list nat :=
  filter (fun j => str_eqb (sget refs j) s) (seq 0 (length refs)).
(* LookupDB.lookup *)
Definition lookupdb_lookup (k : nat) (pdist_mode : bool) (refs queries : list str) : list (nat * nat * D) :=
  flat_map (fun x =>
     flat_map (fun e =>
        flat_map (fun y => if pdist_mode && Nat.eqb x y then [] else
                           match valf (sget queries x) e with Some d => [(x, y, d)] | None => [] end)
                 (positions_of refs e))
       (ball nb k (sget queries x)))
   (seq 0 (length queries)).
Definition hash_model (k : nat) (seqs : list str) : list (nat * nat * D) := lookupdb_lookup k true seqs seqs.
End Hash.

Definition val_lev (a b : str) : option nat := Some (slev_x a b).
Definition val_ham (a b : str) : option nat := sham a b.
Definition val_custom (cust : str -> str -> Q) (maxc : option Q) (a b : str) : option Q :=
  if qle_opt (cust a b) maxc then Some (cust a b) else None.
Definition qkey (q : Q) : nat := 0.   (* placeholder key; custom-distance limits are ordered in the harness by exact rationals *)
