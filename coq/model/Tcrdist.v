(* C14: glue of nn.nearest_neighbor_tcrdist around the default search, the bundled V-gene tables
   and a CDR3 distance (the vendored stand-in for pwseqdist).  Definitions only. *)
From Coq Require Import List NArith ZArith Bool Arith.
From PV Require Import lib.Edits lib.LevDP lib.Str model.Symdel.
Import ListNotations.

Definition vtable := (list str * list str * list (list Z))%type.
Fixpoint find_index (s : str) (l : list str) (i : nat) : option nat :=
  match l with [] => None | x :: r => if str_eqb x s then Some i else find_index s r (S i) end.
(* nn._lookup: value at (row label, column label) *)
Definition vlookup (t : vtable) (a b : str) : Z :=
  let '(rows, cols, m) := t in
  match find_index a rows 0, find_index b cols 0 with
  | Some i, Some j => nth j (nth i m []) 0%Z
  | _, _ => 0%Z
  end.

Definition trim (ntrim ctrim : nat) (s : str) : str :=
  if Nat.ltb ntrim (length s - ctrim) then firstn (length s - ctrim - ntrim) (skipn ntrim s) else [].
(* Python slice s[ntrim:-ctrim] used for the candidate search (ctrim >= 1) *)
Definition pyslice (ntrim ctrim : nat) (s : str) : str := firstn (length s - ctrim - ntrim) (skipn ntrim s).

Fixpoint mismatches (a b : str) : nat :=
  match a, b with
  | x :: a', y :: b' => (if N.eqb x y then 0 else 1) + mismatches a' b'
  | _, _ => 0
  end.
(* the stand-in CDR3 distance (standin/pwseqdist/metrics.py) *)
Definition cdr3_standin (ntrim ctrim w gap : nat) (a b : str) : Z :=
  let ta := trim ntrim ctrim a in let tb := trim ntrim ctrim b in
  (Z.of_nat w * Z.of_nat (mismatches ta tb)
   + Z.of_nat gap * Z.abs (Z.of_nat (length ta) - Z.of_nat (length tb)))%Z.

Record tcr := { tr_va : str; tr_cdr3a : str; tr_vb : str; tr_cdr3b : str }.

Section Tcrdist.
Variable talpha tbeta : vtable.
Variable cdr3d : str -> str -> Z.      (* CDR3 distance with the tcrdist keyword arguments applied *)
Variable chain : nat.                   (* 0 = alpha, 1 = beta, 2 = both (candidates from beta) *)
Variable k : nat.
Variable trimmed : option (nat * nat).  (* Some (ntrim, ctrim) when edit_on_trimmed *)
Variable maxt : Z.

Definition search_seq (x : tcr) : str :=
  let s := if Nat.eqb chain 0 then tr_cdr3a x else tr_cdr3b x in
  match trimmed with Some (n, c) => pyslice n c s | None => s end.
Definition dist_alpha (x y : tcr) : Z := (vlookup talpha (tr_va x) (tr_va y) + cdr3d (tr_cdr3a x) (tr_cdr3a y))%Z.
Definition dist_beta (x y : tcr) : Z := (vlookup tbeta (tr_vb x) (tr_vb y) + cdr3d (tr_cdr3b x) (tr_cdr3b y))%Z.
Definition tcrdist (x y : tcr) : Z :=
  match chain with 0 => dist_alpha x y | 1 => dist_beta x y | _ => (dist_beta x y + dist_alpha x y)%Z end.

Definition tcrdist_nn (rows : list tcr) : list (nat * nat * Z) :=
  let d0 := Build_tcr [] [] [] [] in
  flat_map (fun t => let i := fst (fst t) in let j := snd (fst t) in
                     let d := tcrdist (nth i rows d0) (nth j rows d0) in
                     if Z.leb d maxt then [(i, j, d)] else [])
           (symdel_self Nat.eq_dec (keep_lev k) k (map search_seq rows)).
End Tcrdist.
