(* C04 / C11 - the float64 ball radius handed to the KD-tree admits every squared histogram distance the pre-filter theorem allows.
   Kept in its own file because both the engine-agreement property (C04) and the compression / worker independence property (C11)
   rest on it: the checks of both re-check it against the radius expression regenerated from nn.py on every run. *)
From Coq Require Import List Arith.
(* the binary64 radius regenerated from nn.py (np.sqrt(2) * max_edits today) admits every squared histogram distance the
   pre-filter theorem allows, for both ways SciPy may compare (squared / square-rooted); decided for every k in 1..4096 *)
From PV Require Import gen.Gen_c04 proofs.RadiusP.
Theorem C04_radius : forall k, 1 <= k <= 4096 -> radius_ok k = true.
Proof. exact radius_covers. Qed.
Print Assumptions C04_radius.

(* the KD-tree query as written asks for the exact Euclidean ball: no approximation factor (eps), no other norm (p) among the options
   handed to query_ball_point - with eps > 0 SciPy may prune a node whose nearest corner lies exactly on the radius, which is where
   every pure-substitution pair sits *)
Theorem C04_ball_query_exact : gen_ball_query_exact = true.
Proof. reflexivity. Qed.

