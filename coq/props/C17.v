(* C17 - resampling and power-law utilities conserve counts and honour their bounds.
   Random draws are explicit arguments of the models; gen_* are regenerated from pyrepseq/stats.py on every run.
   PARTIAL by design (DESIGN.md section 4 C17): that NumPy's generator realises the uniform subset, float rounding,
   and that SciPy's bounded minimiser returns a maximiser ('exact') are runtime behaviour - exercised by the harness,
   not proved.  Full statement for 'exact', not provable here (Hurwitz zeta and the optimiser are outside Coq):
     forall c cmin lo hi, let a := powerlaw_mle_alpha c cmin 'exact' [lo,hi] in
       lo <= a <= hi /\ forall b, lo <= b <= hi -> loglik c cmin b <= loglik c cmin a.
   What is proved for it is C17_exact_check_partial: the decision the harness takes on the implementation's value
   (bounds respected, log-likelihood not below any grid value minus the tolerance) is exactly that Prop. *)
From Coq Require Import List QArith NArith ZArith Bool Arith Lia Permutation Sorting.Sorted Reals.
From PV Require Import lib.Val model.Resample model.Powerlaw model.PowerlawR gen.Gen_stats_R gen.Gen_c17 gen.Gen_c17_R
  proofs.ResampleP proofs.PowerlawP proofs.PowerlawMleP.
Import ListNotations.
Close Scope R_scope.
Close Scope Q_scope.
Open Scope nat_scope.

(* ---------------------------------------------------------------- subsample *)
(* for EVERY draw S of distinct item positions below the total: ascending distinct categories, positive counts
   summing to the number drawn, none above the original count of its category, categories in range *)
Theorem C17_subsample : forall (counts S : list nat),
  NoDup S -> (forall t, In t S -> t < list_sum counts) ->
  let r := subsample counts S in
  StronglySorted lt (map fst r) /\
  Forall (fun p => 0 < snd p) r /\
  list_sum (map snd r) = length S /\
  Forall (fun p => snd p <= nth (fst p) counts 0) r /\
  Forall (fun p => fst p < length counts) r.
Proof. exact subsample_spec. Qed.
Print Assumptions C17_subsample.

(* n larger than the total: no draw exists (the model's reason for the refusal) *)
Theorem C17_subsample_refuses : forall (counts : list nat) (n : nat) (S : list nat),
  list_sum counts < n -> ~ (NoDup S /\ (forall t, In t S -> t < list_sum counts) /\ length S = n).
Proof. intros counts n S Hn [Hnd [Hlt Hlen]]. pose proof (subsample_refuses counts S Hnd Hlt). lia. Qed.
Print Assumptions C17_subsample_refuses.

(* the predicate the harness evaluates on the implementation's own output is exactly that specification;
   and the model passes it under every valid draw *)
Theorem C17_subsample_check : forall counts n r,
  (subsample_okb counts n r = true <-> subsample_Spec counts n r) /\
  (forall S, valid_drawb (list_sum counts) n S = true -> subsample_okb counts n (subsample counts S) = true).
Proof. intros. split; [apply subsample_okb_iff|intros S; apply subsample_model_ok]. Qed.
Print Assumptions C17_subsample_check.

(* completeness of the model: every value that meets the specification IS the model's output under a valid draw
   (the canonical one: the first c items of each reported category) - so "meets the specification" and
   "is produced by the model under some duplicate-free draw below the total" are the same thing *)
Theorem C17_subsample_complete : forall counts n r,
  subsample_Spec counts n r ->
  let S := canon_draw counts r in
  NoDup S /\ (forall t, In t S -> t < list_sum counts) /\ length S = n /\ subsample counts S = r.
Proof. exact subsample_complete. Qed.
Print Assumptions C17_subsample_complete.

(* every item equally likely to be kept: among the n-subsets of N distinct items, those containing a given item
   are the fraction n/N (cross-multiplied over nat) *)
Theorem C17_uniform_item : forall (n : nat) (l : list nat) (x : nat),
  NoDup l -> In x l ->
  length (filter (fun s => if in_dec Nat.eq_dec x s then true else false) (subsets n l)) * length l
  = length (subsets n l) * n.
Proof. intros n l x. apply (inclusion_identity Nat.eq_dec). Qed.
Print Assumptions C17_uniform_item.

(* subsets n l really is the set of n-element sub-selections: all of them, with the right length *)
Theorem C17_subsets_exact : forall (n : nat) (l s : list nat),
  In s (subsets n l) <-> (Subseq s l /\ length s = n).
Proof.
  intros n l s. split.
  - intros H. split; [eapply subsets_Subseq; eauto|eapply subsets_elem_length; eauto].
  - intros [H1 H2]. subst n. apply Subseq_subsets. exact H1.
Qed.
Print Assumptions C17_subsets_exact.

(* ---------------------------------------------------------------- downsample *)
Theorem C17_downsample_id : forall (xs : list N) (maxseqs : option nat) (S : list nat),
  maxseqs = None \/ (exists m, maxseqs = Some m /\ length xs <= m) ->
  downsample 0%N xs maxseqs S = xs.
Proof. intros. now apply downsample_id. Qed.
Print Assumptions C17_downsample_id.

Theorem C17_downsample_sub : forall (xs : list N) (m : nat) (S : list nat),
  m < length xs -> NoDup S -> length S = m -> (forall t, In t S -> t < length xs) ->
  let r := downsample 0%N xs (Some m) S in
  length r = m /\ (exists rest, Permutation xs (r ++ rest)) /\ r = map (fun t => nth t xs 0%N) S.
Proof.
  intros xs m S Hm Hnd Hl Hb r.
  destruct (downsample_sub 0%N xs (Some m) m S eq_refl Hm Hnd Hl Hb) as [H1 H2].
  repeat split; [exact H1|exact H2|].
  subst r. unfold downsample. assert (E : Nat.leb (length xs) m = false) by (apply Nat.leb_gt; exact Hm).
  rewrite E. reflexivity.
Qed.
Print Assumptions C17_downsample_sub.

Theorem C17_downsample_check : forall (xs : list N) (maxseqs : option nat) (out : list N),
  downsample_okb N.eq_dec xs maxseqs out = true <-> downsample_Spec xs maxseqs out.
Proof. intros. apply downsample_okb_iff. Qed.
Print Assumptions C17_downsample_check.

(* ---------------------------------------------------------------- powerlaw_sample *)
(* the formula regenerated from stats.py, for every uniform draw r in [0,1): integer-valued and >= xmin *)
Theorem C17_powerlaw_ge : forall (xmin : Z) (alpha r : R),
  (1 <= xmin)%Z -> (1 < alpha)%R -> (0 <= r < 1)%R ->
  (IZR xmin <= gen_powerlaw_sample_R (IZR xmin) alpha r)%R /\
  exists k : Z, gen_powerlaw_sample_R (IZR xmin) alpha r = IZR k.
Proof. exact gen_powerlaw_sample_ge. Qed.
Print Assumptions C17_powerlaw_ge.

Theorem C17_powerlaw_formula : forall xmin alpha r : R,
  gen_powerlaw_sample_R xmin alpha r = IZR (Int_part ((xmin - 1/2) * Rpower (1 - r) (- 1 / (alpha - 1)) + 1/2)).
Proof. exact gen_powerlaw_sample_ok. Qed.
Print Assumptions C17_powerlaw_formula.

Theorem C17_powerlaw_check : forall size xmin vals,
  powerlaw_okb size xmin vals = true <->
  length vals = size /\ Forall (fun v => (xmin <= v)%Q /\ exists z : Z, (v == inject_Z z)%Q) vals.
Proof. exact powerlaw_okb_iff. Qed.
Print Assumptions C17_powerlaw_check.

(* ---------------------------------------------------------------- powerlaw_mle_alpha *)
(* the generated 'simple' / 'continuitycorrection' branches are the documented closed forms over the counts >= cmin
   (real logarithm) *)
Theorem C17_mle_simple : forall (c : list R) (cmin : R),
  gen_mle_simple_R c cmin
  = (1 + INR (length (keep_ge_R cmin c)) / sumR (map (fun x => ln (x / cmin)) (keep_ge_R cmin c)))%R.
Proof. exact gen_mle_simple_R_ok. Qed.
Print Assumptions C17_mle_simple.

Theorem C17_mle_continuitycorrection : forall (c : list R) (cmin : R),
  gen_mle_continuitycorrection_R c cmin
  = (1 + INR (length (keep_ge_R cmin c)) / sumR (map (fun x => ln (x / (cmin - 1/2))) (keep_ge_R cmin c)))%R.
Proof. exact gen_mle_cc_R_ok. Qed.
Print Assumptions C17_mle_continuitycorrection.

Theorem C17_mle_counts_ge : forall (c : list R) (cmin x : R),
  In x (keep_ge_R cmin c) <-> In x c /\ (cmin <= x)%R.
Proof. intros. apply keep_ge_R_In. Qed.
Print Assumptions C17_mle_counts_ge.

(* the continuity-corrected quotient is genuine whenever some count is >= cmin > 1/2 *)
Theorem C17_mle_cc_defined : forall (c : list R) (cmin : R),
  (1/2 < cmin)%R -> keep_ge_R cmin c <> [] ->
  (0 < sumR (map (fun x => ln (x / (cmin - 1/2))) (keep_ge_R cmin c)))%R.
Proof. exact mle_cc_sum_pos. Qed.
Print Assumptions C17_mle_cc_defined.

(* the same two branches over Q with ln ANY function (what the oracle runs, with a table of logarithms) *)
Theorem C17_mle_symbolic : forall (ln : Q -> Q) (c : list Q) (cmin : Q),
  (gen_mle_simple ln c cmin == mle_simple_doc ln c cmin)%Q /\
  (gen_mle_continuitycorrection ln c cmin == mle_cc_doc ln c cmin)%Q /\
  (forall x, In x (keep_ge cmin c) <-> In x c /\ (cmin <= x)%Q).
Proof. intros. split; [apply gen_mle_simple_ok|split; [apply gen_mle_cc_ok|intros; apply keep_ge_In]]. Qed.
Print Assumptions C17_mle_symbolic.

(* 'exact' - partial, see the header: only the decision procedure applied to the implementation's value is proved *)
Theorem C17_exact_check_partial : forall lo hi a ll_a tol grid,
  exact_okb lo hi a ll_a tol grid = true <->
  (lo <= a)%Q /\ (a <= hi)%Q /\ Forall (fun g => (g - tol <= ll_a)%Q) grid.
Proof. exact exact_okb_iff. Qed.
Print Assumptions C17_exact_check_partial.

(* ---------------------------------------------------------------- non-vacuity *)
(* counts (2,0,3): items 0,1 in category 0, items 2,3,4 in category 2; the draw {4,0,2} keeps one of category 0, two of 2 *)
Example C17_ex_subsample :
  subsample [2; 0; 3] [4; 0; 2] = [(0, 1); (2, 2)] /\ valid_drawb 5 3 [4; 0; 2] = true /\
  subsample_okb [2; 0; 3] 3 [(0, 1); (2, 2)] = true /\ subsample_okb [2; 0; 3] 3 [(0, 3)] = false /\
  subsample_okb [2; 0; 3] 3 [(2, 2); (0, 1)] = false /\ subsample_okb [2; 0; 3] 3 [(0, 1); (1, 0); (2, 2)] = false.
Proof. vm_compute. repeat split. Qed.
Example C17_ex_complete : canon_draw [2; 0; 3] [(0, 1); (2, 2)] = [0; 2; 3] /\ subsample [2; 0; 3] [0; 2; 3] = [(0, 1); (2, 2)].
Proof. vm_compute. split; reflexivity. Qed.
Example C17_ex_refuses : valid_drawb 5 6 [0; 1; 2; 3; 4; 4] = false /\ valid_drawb 5 6 [0; 1; 2; 3; 4; 5] = false.
Proof. vm_compute. split; reflexivity. Qed.
(* 5 items, 2 kept: C(5,2) = 10 subsets, C(4,1) = 4 contain item 0: 4 * 5 = 10 * 2 *)
Example C17_ex_uniform :
  length (subsets 2 (seq 0 5)) = 10 /\
  length (filter (fun s => if in_dec Nat.eq_dec 0 s then true else false) (subsets 2 (seq 0 5))) = 4.
Proof. vm_compute. split; reflexivity. Qed.
Example C17_ex_downsample :
  downsample 0%N [7; 8; 7; 9]%N (Some 2) [2; 0] = [7; 7]%N /\ downsample 0%N [7; 8; 7; 9]%N (Some 4) [2; 0] = [7; 8; 7; 9]%N /\
  downsample_okb N.eq_dec [7; 8; 7; 9]%N (Some 2) [7; 7]%N = true /\ downsample_okb N.eq_dec [7; 8; 7; 9]%N (Some 2) [8; 8]%N = false /\
  downsample_okb N.eq_dec [7; 8; 7; 9]%N (Some 2) [7; 8; 9]%N = false /\ recover_draw N.eq_dec [7; 8; 7; 9]%N [7; 9; 7]%N [] = Some [0; 3; 2].
Proof. vm_compute. repeat split. Qed.
(* counts (1,2,4,8), cmin 2, a toy table for ln: kept (2,4,8), arguments 1,2,4 -> 0,1,2: 1 + 3/3 = 2 *)
Example C17_ex_mle :
  (gen_mle_simple (lookup_ln [(1, 0); (2, 1); (4, 2)]%Q 0%Q) [1; 2; 4; 8]%Q 2%Q == 2)%Q /\
  gen_mle_simple_defined (lookup_ln [(1, 0); (2, 1); (4, 2)]%Q 0%Q) [1; 2; 4; 8]%Q 2%Q = true /\
  keep_ge 2%Q [1; 2; 4; 8]%Q = [2; 4; 8]%Q.
Proof. vm_compute. repeat split. Qed.
Example C17_ex_powerlaw : powerlaw_okb 3 2%Q [2; 5; 17]%Q = true /\ powerlaw_okb 3 2%Q [2; 1; 17]%Q = false /\
  powerlaw_okb 3 2%Q [2; 5 # 2; 17]%Q = false /\ powerlaw_okb 2 2%Q [2; 5; 17]%Q = false.
Proof. vm_compute. repeat split. Qed.
(* r = 0 attains the bound: the hypotheses of C17_powerlaw_ge are satisfiable and the bound is tight *)
Example C17_ex_powerlaw_tight : forall xmin alpha : R, powerlaw_value xmin alpha 0 = xmin.
Proof. exact powerlaw_value_0. Qed.
