(* C12 (source tie) - the one-edit generators REGENERATED from the source text of pyrepseq/distance.py on every run
   (gen/Gen_c12.v, written by translate/regen_c12.py) are equal, for all inputs, to the hand-written models that the
   C12 / C03 / C04 / C07 theorems are about.  List equality: same strings, same order, same multiplicity. *)
From Coq Require Import List NArith Bool Arith Lia.
From PV Require Import lib.Edits lib.Str model.Nbrs model.Nndist gen.Gen_c12 proofs.GenNbrsP.
Import ListNotations.

(* levenshtein_neighbors(x, alphabet): deletions, then replacements, then insertions, exactly as the model lists them *)
Theorem C12_source_lev_nbrs : forall (al x : str), gen_levenshtein_neighbors al x = lev_nbrs al x.
Proof. exact gen_levenshtein_neighbors_eq. Qed.
Print Assumptions C12_source_lev_nbrs.

(* hamming_neighbors(x, alphabet, variable_positions): any list of positions (positions outside the string yield nothing
   on both sides: Python raises IndexError there); and with variable_positions=None, as LIST equality with subs1 *)
Theorem C12_source_ham_nbrs : forall (al : str) (pos : list nat) (x : str),
  gen_hamming_neighbors al pos x = ham_nbrs_pos al pos x /\
  gen_hamming_neighbors_default al x = ham_nbrs al x.
Proof. exact gen_hamming_neighbors_both. Qed.
Print Assumptions C12_source_ham_nbrs.

(* _isdist2_hamming(x, reference): the enumerated candidates are the list subs2, hence the same boolean *)
Theorem C12_source_isdist2 : forall (al x : str) (ref : list str),
  gen_isdist2_candidates al x = subs2 al x /\ gen_isdist2 al x ref = isdist2_ham al x ref.
Proof. exact gen_isdist2_both. Qed.
Print Assumptions C12_source_isdist2.

(* _isdist3_hamming(x, reference) *)
Theorem C12_source_isdist3 : forall (al x : str) (ref : list str),
  gen_isdist3_candidates al x = subs3 al x /\ gen_isdist3 al x ref = isdist3_ham al x ref.
Proof. exact gen_isdist3_both. Qed.
Print Assumptions C12_source_isdist3.

(* the generated functions compute: alphabet "AC", x = "AAC" *)
Example C12g_lev_AAC :
  gen_levenshtein_neighbors [65;67]%N [65;65;67]%N =
  [ [65;67]; [65;65];                                              (* deletions: the second A of the run is skipped *)
    [67;65;67]; [65;67;67]; [65;65;65];                            (* replacements *)
    [65;65;65;67]; [67;65;65;67]; [65;67;65;67]; [65;65;67;67]; [65;65;67;65] ]%N.   (* insertions *)
Proof. vm_compute. reflexivity. Qed.

Example C12g_ham_AAC :
  gen_hamming_neighbors [65;67]%N [2;0;7] [65;65;67]%N = [ [65;65;65]; [67;65;67] ]%N /\
  gen_hamming_neighbors_default [65;67]%N [65;65;67]%N = [ [67;65;67]; [65;67;67]; [65;65;65] ]%N.
Proof. split; vm_compute; reflexivity. Qed.

Example C12g_isdist2_AAC :
  gen_isdist2_candidates [65;67]%N [65;65;67]%N = [ [67;67;67]; [67;65;65]; [65;67;65] ]%N /\
  gen_isdist2 [65;67]%N [65;65;67]%N [[65;67;65]]%N = true /\
  gen_isdist2 [65;67]%N [65;65;67]%N [[65;65;65]]%N = false.
Proof. repeat split; vm_compute; reflexivity. Qed.

Example C12g_isdist3_AAC :
  gen_isdist3_candidates [65;67]%N [65;65;67]%N = [ [67;67;65] ]%N /\
  gen_isdist3 [65;67]%N [65;65;67]%N [[67;67;65]]%N = true /\
  gen_isdist3 [65;67]%N [65;65;67]%N [[65;67;65]]%N = false.
Proof. repeat split; vm_compute; reflexivity. Qed.
