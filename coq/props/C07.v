(* C07 - Hamming mode returns exactly the equal-length pairs within max_edits mismatches. *)
From Coq Require Import List NArith ZArith Bool Arith Lia.
From PV Require Import lib.Edits lib.LevDP lib.Str model.Symdel model.Kdtree model.Nbrs model.Engines
                       proofs.SymdelP proofs.KdtreeP proofs.NbrsP proofs.EnginesP.
Import ListNotations.

Definition ham_symdel (k : nat) (seqs : list str) := symdel_self Nat.eq_dec (keep_ham k) k seqs.
Definition ham_symdel_two (k : nat) (refs queries : list str) := symdel_lookup (keep_ham k) k refs queries.
Definition ham_hash (k : nat) (seqs : list str) := hash_model val_ham (ham_nbrs aa_letters) k seqs.
(* one bucket of equal-length sequences searched with the Hamming scorer *)
Definition ham_kdtree_bucket (k comp : nat) (seqs : list str) := kdtree_model (keep_ham k) (fun d => d) k comp None seqs.

(* sham a b = Some d: equal length and exactly d mismatching positions; None: different lengths *)
Theorem C07_hamming_meaning : forall a b d, sham a b = Some d -> length a = length b /\ edits a b 0 0 d.
Proof. intros a b d H. unfold sham in H. split; [eapply ham_length; eauto|eapply ham_edits; eauto]. Qed.
Print Assumptions C07_hamming_meaning.

Theorem C07_symdel : forall k seqs i j d,
  In (i, j, d) (ham_symdel k seqs) <->
  i < length seqs /\ j < length seqs /\ i <> j /\ sham (sget seqs i) (sget seqs j) = Some d /\ d <= k.
Proof.
  intros. unfold ham_symdel.
  rewrite (symdel_self_spec Nat.eq_dec (keep_ham k) k (keep_ham_within k) (keep_ham_sym k)), keep_ham_spec. tauto.
Qed.
Print Assumptions C07_symdel.

Theorem C07_symdel_two_collections : forall k refs queries q r d,
  In (q, r, d) (ham_symdel_two k refs queries) <->
  q < length queries /\ r < length refs /\ sham (sget queries q) (sget refs r) = Some d /\ d <= k.
Proof.
  intros. unfold ham_symdel_two. rewrite (symdel_lookup_spec (keep_ham k) k (keep_ham_within k)), keep_ham_spec. tauto.
Qed.
Print Assumptions C07_symdel_two_collections.

Theorem C07_hash : forall k seqs i j d, (forall s, In s seqs -> over_aa s) ->
  (In (i, j, d) (ham_hash k seqs) <->
   i < length seqs /\ j < length seqs /\ i <> j /\ sham (sget seqs i) (sget seqs j) = Some d /\ d <= k).
Proof.
  intros k seqs i j d Hal. unfold ham_hash, hash_model.
  rewrite (lookupdb_spec val_ham (ham_nbrs aa_letters) k
             (fun a b => exists n, sham a b = Some n /\ n <= k) true seqs seqs i j d).
  - unfold val_ham. split.
    + intros (H1 & H2 & H3 & (n & Hn & Hk) & V). rewrite V in Hn. injection Hn as <-. auto.
    + intros (H1 & H2 & H3 & V & Hk). repeat split; auto. eauto.
  - intros q e He. apply ball_ham. apply Hal. exact He.
Qed.
Print Assumptions C07_hash.

Theorem C07_kdtree_bucket : forall k comp seqs i j d,
  In (i, j, d) (ham_kdtree_bucket k comp seqs) <->
  i < length seqs /\ j < length seqs /\ i <> j /\ sham (sget seqs i) (sget seqs j) = Some d /\ d <= k.
Proof.
  intros. unfold ham_kdtree_bucket. rewrite (kdtree_spec (keep_ham k) (fun d => d) k (keep_ham_within k)).
  rewrite keep_ham_spec. tauto.
Qed.
Print Assumptions C07_kdtree_bucket.

Theorem C07_unequal_lengths_never : forall k seqs i j d,
  In (i, j, d) (ham_symdel k seqs) -> length (sget seqs i) = length (sget seqs j).
Proof. intros k seqs i j d H. apply C07_symdel in H as (_ & _ & _ & H & _). unfold sham in H. eapply ham_length; eauto. Qed.
Print Assumptions C07_unequal_lengths_never.

Example C07_ex : ham_symdel 1 [[67;65;65;65;68]; [67;65;65;65]; [67;68;68;68]; [67;65;68;65]; [67;65;65;65;69]]%N
  = [(1, 3, 1); (3, 1, 1); (0, 4, 1); (4, 0, 1)].
Proof. vm_compute. reflexivity. Qed.
