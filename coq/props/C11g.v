(* C11 (also C04, C07): source tie of the kdtree helpers.  gen_histogram_encode / gen_to_len_bucket are
   nn._histogram_encode / nn._to_len_bucket translated from today's source text (gen/Gen_c11.v, rewritten by
   translate/regen_c11.py on every run; `..._exc` : res _ keeps the exception, the plain name is its value).
   They are equal, for all inputs, to the definitions the kdtree theorems are about: model/Engines.v `encode`
   (letter t of the alphabet -> bin floor(t / compression), ceil(20 / compression) bins) and the length buckets
   (model/LenBucket.v `to_len_bucket`: the dict as its item list, keys in first-occurrence order;
   model/Engines.v `length_buckets`: the same position lists in nodup's order). *)
From Coq Require Import List NArith ZArith Bool Arith Permutation.
From PV Require Import lib.Edits lib.Str lib.PyDict model.Symdel model.Kdtree model.Engines model.LenBucket
                       gen.Gen_consts gen.Gen_c11 proofs.GenKdtreeP.
Import ListNotations.

(* _histogram_encode(cdr3, compression) for every string over the alphabet and every compression >= 1:
   no exception, and the returned vector is the model's encode *)
Theorem C11_source_histogram_encode : forall (s : str) (c : nat),
  Forall (fun ch => In ch gen_aminoacids) s -> 1 <= c ->
  gen_histogram_encode_exc gen_aminoacids s c = Ok (encode c s) /\
  gen_histogram_encode gen_aminoacids s c = encode c s.
Proof. exact gen_histogram_encode_eq. Qed.
Print Assumptions C11_source_histogram_encode.

(* outside that domain Python raises: KeyError for a letter outside the alphabet (compression >= 1),
   ZeroDivisionError for compression = 0 (whatever the string) *)
Theorem C11_source_histogram_encode_raises : forall (s : str) (c : nat),
  (1 <= c -> ~ Forall (fun ch => In ch gen_aminoacids) s ->
     gen_histogram_encode_exc gen_aminoacids s c = Raise KeyError) /\
  gen_histogram_encode_exc gen_aminoacids s 0 = Raise ZeroDivisionError.
Proof. exact gen_histogram_encode_raises. Qed.
Print Assumptions C11_source_histogram_encode_raises.

(* _to_len_bucket(seqs): LIST equality with the specification -- same keys in the same (first-occurrence) order,
   same positions and same sequences in the same order inside every bucket; never an exception *)
Theorem C11_source_len_bucket : forall seqs : list str,
  gen_to_len_bucket_exc seqs = Ok (to_len_bucket seqs) /\ gen_to_len_bucket seqs = to_len_bucket seqs.
Proof. exact gen_to_len_bucket_eq. Qed.
Print Assumptions C11_source_len_bucket.

(* projected on the position lists these are the buckets of model/Engines.v: `length_buckets` lists them in the order
   of `nodup` (last occurrence of a length), the source in first-occurrence order, hence a permutation; the exact
   list is `map (bucket_positions seqs) (first_lens seqs)`, and every bucket holds the sequences at its positions *)
Theorem C11_source_len_bucket_engines : forall seqs : list str,
  Permutation (map (fun b : nat * (list nat * list str) => fst (snd b)) (gen_to_len_bucket seqs)) (length_buckets seqs) /\
  map (fun b : nat * (list nat * list str) => fst (snd b)) (gen_to_len_bucket seqs) =
    map (bucket_positions seqs) (first_lens seqs) /\
  Forall (fun b : nat * (list nat * list str) =>
            fst (snd b) = bucket_positions seqs (fst b) /\ snd (snd b) = map (sget seqs) (fst (snd b)))
         (gen_to_len_bucket seqs).
Proof. exact gen_to_len_bucket_engines. Qed.
Print Assumptions C11_source_len_bucket_engines.

(* the Hamming mode run over the regenerated buckets (search each `bucket`, map positions back through `indices`)
   returns exactly the triples of the model kdtree_hamming, as a multiset *)
Theorem C11_source_hamming_buckets : forall {D} (keep : str -> str -> option D) (key : D -> nat) (k comp : nat)
    (limit : option nat) (seqs : list str),
  Permutation
    (flat_map (fun b : nat * (list nat * list str) =>
        map (fun t => (nth (fst (fst t)) (fst (snd b)) 0, nth (snd (fst t)) (fst (snd b)) 0, snd t))
            (kdtree_model keep key k comp limit (snd (snd b))))
      (gen_to_len_bucket seqs))
    (kdtree_hamming keep key k comp limit seqs).
Proof. exact @gen_buckets_kdtree_hamming. Qed.
Print Assumptions C11_source_hamming_buckets.

(* the generated functions compute (expected values: the Python functions of the pinned tree on the same input).
   "CASSF" = C A S S F = letters number 1 0 15 15 4 of the alphabet *)
Definition CASSF : str := [67; 65; 83; 83; 70]%N.
Example C11g_CASSF_in_alphabet : Forall (fun ch => In ch gen_aminoacids) CASSF.
Proof. unfold CASSF. repeat (apply Forall_cons; [vm_compute; tauto|]). apply Forall_nil. Qed.

Example C11g_encode_CASSF :
  gen_histogram_encode_exc gen_aminoacids CASSF 1 = Ok [1;1;0;0;1;0;0;0;0;0;0;0;0;0;0;2;0;0;0;0]%Z /\
  gen_histogram_encode_exc gen_aminoacids CASSF 3 = Ok [2;1;0;0;0;2;0]%Z /\
  gen_histogram_encode_exc gen_aminoacids CASSF 7 = Ok [3;0;2]%Z /\
  gen_histogram_encode_exc gen_aminoacids CASSF 20 = Ok [5]%Z /\
  gen_histogram_encode_exc gen_aminoacids CASSF 25 = Ok [5]%Z /\
  gen_histogram_encode gen_aminoacids CASSF 3 = [2;1;0;0;0;2;0]%Z /\
  encode 3 CASSF = [2;1;0;0;0;2;0]%Z /\ encode 25 CASSF = [5]%Z.
Proof. vm_compute. repeat split. Qed.

(* "CASB": B is not an amino-acid letter; compression 0 *)
Example C11g_encode_raises :
  gen_histogram_encode_exc gen_aminoacids [67; 65; 83; 66]%N 1 = Raise KeyError /\
  gen_histogram_encode_exc gen_aminoacids [67; 65; 83]%N 0 = Raise ZeroDivisionError /\
  gen_histogram_encode_exc gen_aminoacids [] 1 = Ok (repeat 0%Z 20).
Proof. vm_compute. repeat split. Qed.

(* _to_len_bucket(["AA", "C", "DD", "", "E"]) = {2: ([0, 2], ['AA', 'DD']), 1: ([1, 4], ['C', 'E']), 0: ([3], [''])} *)
Definition sAA : str := [65;65]%N.  Definition sC : str := [67]%N.  Definition sDD : str := [68;68]%N.
Definition sE : str := [69]%N.
Example C11g_buckets :
  gen_to_len_bucket_exc [sAA; sC; sDD; []; sE] =
    Ok [ (2, ([0;2], [sAA; sDD])); (1, ([1;4], [sC; sE])); (0, ([3], [[]])) ] /\
  gen_to_len_bucket [] = [] /\
  to_len_bucket [sAA; sC; sDD; []; sE] =
    [ (2, ([0;2], [sAA; sDD])); (1, ([1;4], [sC; sE])); (0, ([3], [[]])) ].
Proof. vm_compute. repeat split. Qed.

(* why C11_source_len_bucket_engines is a permutation and not an equality: nodup keeps the LAST occurrence *)
Example C11g_bucket_order :
  map (fun b : nat * (list nat * list str) => fst (snd b)) (gen_to_len_bucket [sAA; sC; sDD]) = [[0;2]; [1]] /\
  length_buckets [sAA; sC; sDD] = [[1]; [0;2]].
Proof. vm_compute. repeat split. Qed.
