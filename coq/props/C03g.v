(* C03 (also C01, C07, C14) - source tie: class SymdelDB as written in pyrepseq/nn.py today (gen/Gen_c03.v is regenerated from the
   source text on every run): the index built by __init__ from the regenerated _comb_gen, and the answers of lookup in its three
   distance modes, for EVERY iteration order of the Python sets involved (iterS: a set of strings, iterN: a set of ints). *)
From Coq Require Import List Arith Bool QArith ZArith.
From PV Require Import lib.Edits lib.Str lib.PyDict gen.Gen_c01 gen.Gen_c03 model.Symdel proofs.SymdelP proofs.GenSymdelDBP.
Import ListNotations.
Close Scope Q_scope.
Open Scope nat_scope.

(* __init__: the bucket of a variant c holds exactly the reference positions one of whose <= k deletion variants is c *)
Theorem C03_source_index : forall iterS, ok_iterS iterS -> forall k refs c j,
  In j (bget (gen_symdeldb_init iterS refs k) c) <-> j < length refs /\ exists n, n <= k /\ del n (sget refs j) c.
Proof. intros iterS IS k refs c j. rewrite (gen_init_bucket iterS IS). now rewrite in_comb_gen. Qed.
Print Assumptions C03_source_index.

(* lookup, default mode (custom_distance=None): exactly the triplets (q, r, lev) with lev <= max_edits, each pair once *)
Theorem C03_source_lookup_default : forall iterS iterN, ok_iterS iterS -> ok_iterN iterN -> forall k refs queries,
  let out := gen_symdeldb_lookup iterS iterN slev_x slev_x (fun d t => Nat.ltb t d) refs k (gen_symdeldb_init iterS refs k)
               (gen_is_custom CNone) (gen_threshold (gen_is_custom CNone) 0 k) queries in
  (forall i j d, In (i, j, d) out <->
     i < length queries /\ j < length refs /\ d = slev (sget queries i) (sget refs j) /\ d <= k) /\
  NoDup (map fst out).
Proof.
  intros iterS iterN IS IN k refs queries out.
  destruct (gen_lookup_exact iterS iterN IS IN slev_x slev_x (fun d t => Nat.ltb t d) (gen_is_custom CNone)
              (gen_threshold (gen_is_custom CNone) 0 k) k) with (refs := refs) (queries := queries) as [M N].
  - intros a b d H. rewrite gen_keep_lev in H. eapply keep_lev_within; eauto.
  - split; [|exact N]. intros i j d. fold out in M. rewrite M, gen_keep_lev, keep_lev_spec. tauto.
Qed.
Print Assumptions C03_source_lookup_default.

(* lookup, Hamming mode: equal length and at most max_edits mismatches; the reported value is the number of mismatches *)
Theorem C03_source_lookup_hamming : forall iterS iterN, ok_iterS iterS -> ok_iterN iterN -> forall k refs queries,
  let out := gen_symdeldb_lookup iterS iterN ham_inf slev_x gt_optnat refs k (gen_symdeldb_init iterS refs k)
               (gen_is_custom CHamming) (gen_threshold (gen_is_custom CHamming) None (Some k)) queries in
  (forall i j d, In (i, j, d) out <->
     i < length queries /\ j < length refs /\ exists h, d = Some h /\ sham (sget queries i) (sget refs j) = Some h /\ h <= k) /\
  NoDup (map fst out).
Proof.
  intros iterS iterN IS IN k refs queries out.
  destruct (gen_lookup_exact iterS iterN IS IN ham_inf slev_x gt_optnat (gen_is_custom CHamming)
              (gen_threshold (gen_is_custom CHamming) None (Some k)) k) with (refs := refs) (queries := queries) as [M N].
  - intros a b d H. apply gen_keep_ham in H as (h & _ & H). eapply keep_ham_within; eauto.
  - split; [|exact N]. intros i j d. fold out in M. rewrite M, gen_keep_ham. split.
    + intros (Hi & Hj & h & -> & H). apply keep_ham_spec in H. eauto 8.
    + intros (Hi & Hj & h & -> & H1 & H2). repeat split; auto. exists h. split; auto. apply keep_ham_spec. auto.
Qed.
Print Assumptions C03_source_lookup_hamming.

(* lookup, custom distance: inside BOTH radii (max_custom_distance = None stands for inf); the reported value is the custom distance *)
Theorem C03_source_lookup_custom : forall iterS iterN, ok_iterS iterS -> ok_iterN iterN ->
  forall (cust : str -> str -> Q) (maxc : option Q) k refs queries,
  let out := gen_symdeldb_lookup iterS iterN (fun x y => Some (cust x y)) slev_x gt_optQ refs k (gen_symdeldb_init iterS refs k)
               (gen_is_custom CCallable) (gen_threshold (gen_is_custom CCallable) maxc (Some (inject_Z (Z.of_nat k)))) queries in
  (forall i j d, In (i, j, d) out <->
     i < length queries /\ j < length refs /\ d = Some (cust (sget queries i) (sget refs j)) /\
     slev (sget queries i) (sget refs j) <= k /\ qle_opt (cust (sget queries i) (sget refs j)) maxc = true) /\
  NoDup (map fst out).
Proof.
  intros iterS iterN IS IN cust maxc k refs queries out.
  destruct (gen_lookup_exact iterS iterN IS IN (fun x y => Some (cust x y)) slev_x gt_optQ (gen_is_custom CCallable)
              (gen_threshold (gen_is_custom CCallable) maxc (Some (inject_Z (Z.of_nat k)))) k) with (refs := refs) (queries := queries) as [M N].
  - intros a b d H. apply gen_keep_custom in H as (q & _ & H). eapply keep_custom_within; eauto.
  - split; [|exact N]. intros i j d. fold out in M. rewrite M, gen_keep_custom. split.
    + intros (Hi & Hj & q & -> & H). apply keep_custom_spec in H as (H1 & H2 & ->). auto.
    + intros (Hi & Hj & -> & H1 & H2). repeat split; auto. eexists. split; [reflexivity|]. apply keep_custom_spec. auto.
Qed.
Print Assumptions C03_source_lookup_custom.

(* the argument handling of lookup as written: which distance is used and which radius applies *)
Theorem C03_source_modes :
  gen_is_custom CNone = false /\ gen_is_custom CHamming = false /\ gen_is_custom CCallable = true /\
  gen_distance_used CHamming = 0 /\ gen_distance_used CNone = 1 /\ gen_distance_used CCallable = 2 /\
  (forall (D : Type) (m e : D), gen_threshold true m e = m /\ gen_threshold false m e = e).
Proof. repeat split. Qed.
Print Assumptions C03_source_modes.

(* non-vacuity: admissible iteration orders exist, and the generated functions compute *)
Definition idS (l : list str) : list str := nodup str_eq_dec l.
Definition idN (l : list nat) : list nat := l.
Example C03g_ex : ok_iterS idS /\ ok_iterN idN /\
  gen_symdeldb_lookup idS idN slev_x slev_x (fun d t => Nat.ltb t d) [[67;65;70];[67;65;87];[67;70]]%N 1
    (gen_symdeldb_init idS [[67;65;70];[67;65;87];[67;70]]%N 1) false 1 [[67;65;70];[65]]%N
  = [(0, 0, 0); (0, 2, 1); (0, 1, 1)].
Proof.
  split; [intros l; split; [apply NoDup_nodup|intros c; apply nodup_In]|]. split; [intros l ND; split; [exact ND|intros x; reflexivity]|].
  vm_compute. reflexivity.
Qed.

(* ================= symdel(), self mode (seqs2 is None) - C01, C07, C14 ================= *)
(* default distance: exactly the ordered pairs of distinct positions within max_edits, exact distance, each once *)
Theorem C01_source_symdel_self_default : forall iterS, ok_iterS iterS -> forall k seqs,
  let out := gen_symdel_self iterS Nat.eq_dec slev_x slev_x (fun d t => Nat.ltb t d) seqs k
               (gen_self_is_custom CNone) (gen_self_threshold (gen_self_is_custom CNone) 0 k) in
  (forall i j d, In (i, j, d) out <->
     i < length seqs /\ j < length seqs /\ i <> j /\ d = slev (sget seqs i) (sget seqs j) /\ d <= k) /\
  NoDup out.
Proof.
  intros iterS IS k seqs out.
  change (gen_self_is_custom CNone) with (gen_is_custom CNone) in out.
  change (gen_self_threshold (gen_is_custom CNone) 0 k) with (gen_threshold (gen_is_custom CNone) 0 k) in out.
  destruct (gen_symdel_self_spec iterS IS Nat.eq_dec slev_x slev_x (fun d t => Nat.ltb t d) (gen_is_custom CNone)
              (gen_threshold (gen_is_custom CNone) 0 k) k) with (seqs := seqs) as [M N].
  - intros a b d H. rewrite gen_keep_lev in H. eapply keep_lev_within; eauto.
  - intros a b. rewrite !gen_keep_lev. apply keep_lev_sym.
  - split; [|exact N]. intros i j d. fold out in M. rewrite M, gen_keep_lev, keep_lev_spec. tauto.
Qed.
Print Assumptions C01_source_symdel_self_default.

Definition optnat_dec : forall a b : option nat, {a = b} + {a <> b}.
Proof. decide equality. apply Nat.eq_dec. Defined.
Definition optQ_dec : forall a b : option Q, {a = b} + {a <> b}.
Proof. decide equality. apply Q_eq_dec. Defined.

(* Hamming mode: equal length, at most max_edits mismatches (C07) *)
Theorem C07_source_symdel_self_hamming : forall iterS, ok_iterS iterS -> forall k seqs,
  let out := gen_symdel_self iterS optnat_dec ham_inf slev_x gt_optnat seqs k
               (gen_self_is_custom CHamming) (gen_self_threshold (gen_self_is_custom CHamming) None (Some k)) in
  (forall i j d, In (i, j, d) out <->
     i < length seqs /\ j < length seqs /\ i <> j /\
     exists h, d = Some h /\ sham (sget seqs i) (sget seqs j) = Some h /\ h <= k) /\
  NoDup out.
Proof.
  intros iterS IS k seqs out.
  change (gen_self_is_custom CHamming) with (gen_is_custom CHamming) in out.
  change (gen_self_threshold (gen_is_custom CHamming) None (Some k)) with (gen_threshold (gen_is_custom CHamming) None (Some k)) in out.
  assert (Sy : forall a b, gen_keep ham_inf slev_x gt_optnat (gen_is_custom CHamming) (gen_threshold (gen_is_custom CHamming) None (Some k)) k a b
                         = gen_keep ham_inf slev_x gt_optnat (gen_is_custom CHamming) (gen_threshold (gen_is_custom CHamming) None (Some k)) k b a).
  { intros a b. unfold gen_keep, ham_inf, sham. cbv zeta. rewrite (Edits.ham_sym N.eq_dec a b). simpl. reflexivity. }
  destruct (gen_symdel_self_spec iterS IS optnat_dec ham_inf slev_x gt_optnat (gen_is_custom CHamming)
              (gen_threshold (gen_is_custom CHamming) None (Some k)) k) with (seqs := seqs) as [M N].
  - intros a b d H. apply gen_keep_ham in H as (h & _ & H). eapply keep_ham_within; eauto.
  - exact Sy.
  - split; [|exact N]. intros i j d. fold out in M. rewrite M, gen_keep_ham. split.
    + intros (Hi & Hj & Nij & h & -> & H). apply keep_ham_spec in H. eauto 10.
    + intros (Hi & Hj & Nij & h & -> & H1 & H2). repeat split; auto. exists h. split; auto. apply keep_ham_spec. auto.
Qed.
Print Assumptions C07_source_symdel_self_hamming.

(* custom distance (symmetric, the stated domain): inside both radii, the reported value is the custom distance (C14) *)
Theorem C14_source_symdel_self_custom : forall iterS, ok_iterS iterS ->
  forall (cust : str -> str -> Q), (forall a b, cust a b = cust b a) -> forall (maxc : option Q) k seqs,
  let out := gen_symdel_self iterS optQ_dec (fun x y => Some (cust x y)) slev_x gt_optQ seqs k
               (gen_self_is_custom CCallable) (gen_self_threshold (gen_self_is_custom CCallable) maxc (Some (inject_Z (Z.of_nat k)))) in
  (forall i j d, In (i, j, d) out <->
     i < length seqs /\ j < length seqs /\ i <> j /\ d = Some (cust (sget seqs i) (sget seqs j)) /\
     slev (sget seqs i) (sget seqs j) <= k /\ qle_opt (cust (sget seqs i) (sget seqs j)) maxc = true) /\
  NoDup out.
Proof.
  intros iterS IS cust CS maxc k seqs out.
  change (gen_self_is_custom CCallable) with (gen_is_custom CCallable) in out.
  change (gen_self_threshold (gen_is_custom CCallable) maxc (Some (inject_Z (Z.of_nat k))))
    with (gen_threshold (gen_is_custom CCallable) maxc (Some (inject_Z (Z.of_nat k)))) in out.
  destruct (gen_symdel_self_spec iterS IS optQ_dec (fun x y => Some (cust x y)) slev_x gt_optQ (gen_is_custom CCallable)
              (gen_threshold (gen_is_custom CCallable) maxc (Some (inject_Z (Z.of_nat k)))) k) with (seqs := seqs) as [M N].
  - intros a b d H. apply gen_keep_custom in H as (q & _ & H). eapply keep_custom_within; eauto.
  - intros a b. unfold gen_keep. cbv zeta. rewrite (CS a b). rewrite !slev_x_spec. unfold slev. rewrite (lev_sym N.eq_dec a b). reflexivity.
  - split; [|exact N]. intros i j d. fold out in M. rewrite M, gen_keep_custom. split.
    + intros (Hi & Hj & Nij & q & -> & H). apply keep_custom_spec in H as (H1 & H2 & ->). auto 8.
    + intros (Hi & Hj & Nij & -> & H1 & H2). repeat split; auto. eexists. split; [reflexivity|]. apply keep_custom_spec. auto.
Qed.
Print Assumptions C14_source_symdel_self_custom.

Example C01g_self_ex :
  gen_symdel_self idS Nat.eq_dec slev_x slev_x (fun d t => Nat.ltb t d) [[67;65;70];[67;65;87];[67;70];[67;65;70]]%N 1 false 1
  = [(0, 3, 0); (3, 0, 0); (0, 2, 1); (2, 0, 1); (2, 3, 1); (3, 2, 1); (0, 1, 1); (1, 0, 1); (1, 3, 1); (3, 1, 1)].
Proof. vm_compute. reflexivity. Qed.
