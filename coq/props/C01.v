(* C01 - the default neighbour search (symdel / nearest_neighbor) returns exactly the pairs within max_edits. *)
From Coq Require Import List NArith Bool Arith Lia.
From PV Require Import lib.Edits lib.LevDP lib.Str model.Symdel proofs.SymdelP proofs.SymdelFarP.
Import ListNotations.

Definition nn_default (k : nat) (seqs : list str) : list (nat * nat * nat) :=
  symdel_self Nat.eq_dec (keep_lev k) k seqs.

(* slev is the Levenshtein distance: attained by an alignment and minimal over all alignments *)
Theorem C01_distance_is_levenshtein : forall a b : str,
  (exists i d s, edits a b i d s /\ slev a b = i + d + s) /\
  (forall i d s, edits a b i d s -> slev a b <= i + d + s).
Proof.
  intros a b. split.
  - destruct (wlev_attained N.eq_dec 1 1 1 a b) as (i & d & s & E & C).
    exists i, d, s. split; auto. unfold slev, lev. rewrite C. unfold cost. lia.
  - intros i d s E. pose proof (wlev_minimal N.eq_dec 1 1 1 _ _ _ _ _ E) as M.
    unfold slev, lev, cost in *. lia.
Qed.
Print Assumptions C01_distance_is_levenshtein.

Theorem C01_exact : forall (k : nat) (seqs : list str) i j d,
  In (i, j, d) (nn_default k seqs) <->
  i < length seqs /\ j < length seqs /\ i <> j /\ d = slev (sget seqs i) (sget seqs j) /\ d <= k.
Proof.
  intros k seqs i j d. unfold nn_default.
  rewrite (symdel_self_spec Nat.eq_dec (keep_lev k) k (keep_lev_within k) (keep_lev_sym k)).
  rewrite keep_lev_spec. tauto.
Qed.
Print Assumptions C01_exact.

Theorem C01_no_pair_repeated : forall k seqs, NoDup (map fst (nn_default k seqs)).
Proof. intros. apply symdel_self_nodup_pairs; [apply keep_lev_within|apply keep_lev_sym]. Qed.
Print Assumptions C01_no_pair_repeated.

Theorem C01_equal_sequences_distance_zero : forall k seqs i j,
  i < length seqs -> j < length seqs -> i <> j -> sget seqs i = sget seqs j -> In (i, j, 0) (nn_default k seqs).
Proof.
  intros k seqs i j Hi Hj Hne E. apply C01_exact. repeat split; auto; try lia.
  rewrite E. unfold slev. now rewrite lev_refl.
Qed.
Print Assumptions C01_equal_sequences_distance_zero.

Theorem C01_never_own_neighbour : forall k seqs i d, ~ In (i, i, d) (nn_default k seqs).
Proof. intros k seqs i d H. apply C01_exact in H. tauto. Qed.
Print Assumptions C01_never_own_neighbour.

Theorem C01_deletion_variants : forall k s c, In c (comb_gen k s) <-> exists m, m <= k /\ del m s c.
Proof. exact in_comb_gen. Qed.
Print Assumptions C01_deletion_variants.

(* the brute-force enumeration the oracle uses for large inputs is the same set *)
Theorem C01_brute_force_agrees : forall k seqs t,
  In t (nn_default k seqs) <-> In t (all_pairs_self (keep_lev k) seqs).
Proof.
  intros k seqs [[i j] d]. unfold nn_default.
  rewrite (symdel_self_spec Nat.eq_dec (keep_lev k) k (keep_lev_within k) (keep_lev_sym k)).
  now rewrite all_pairs_self_spec.
Qed.
Print Assumptions C01_brute_force_agrees.

(* [audit] positions whose strings share no letter are never reported once one of the two is longer than max_edits: every
   column of an alignment of such strings costs one edit.  harness/c01.py uses this to decide collections of more than 2^15
   strings block by block (blocks over pairwise disjoint alphabets, every string longer than max_edits). *)
Theorem C01_no_common_letter_not_neighbours : forall k seqs i j d,
  no_common_letter (sget seqs i) (sget seqs j) ->
  k < Nat.max (length (sget seqs i)) (length (sget seqs j)) ->
  ~ In (i, j, d) (nn_default k seqs).
Proof.
  intros k seqs i j d Hn Hk H. apply C01_exact in H as (_ & _ & _ & -> & Hd).
  pose proof (lev_no_common_lower N.eq_dec _ _ Hn) as L. unfold slev in Hd. lia.
Qed.
Print Assumptions C01_no_common_letter_not_neighbours.

Example C01_no_common_letter_ex :
  no_common_letter (sget [[67;65]; [68;68;69]; [67]]%N 0) (sget [[67;65]; [68;68;69]; [67]]%N 1) /\
  2 < Nat.max (length (sget [[67;65]; [68;68;69]; [67]]%N 0)) (length (sget [[67;65]; [68;68;69]; [67]]%N 1)) /\
  nn_default 2 [[67;65]; [68;68;69]; [67]]%N = [(0, 2, 1); (2, 0, 1)].
Proof.
  split; [|split; [simpl; lia | vm_compute; reflexivity]].
  intros x Hx Hy. simpl in Hx, Hy.
  destruct Hx as [<-|[<-|[]]]; destruct Hy as [Hy|[Hy|[Hy|[]]]]; discriminate Hy.
Qed.

(* non-vacuity: duplicates, an indel neighbour, the empty string *)
Example C01_ex : nn_default 1 [[67;65;65;65]; [67;65;65]; [67;65;65;65]; []]%N =
  [(0, 1, 1); (1, 0, 1); (1, 2, 1); (2, 1, 1); (0, 2, 0); (2, 0, 0)].
Proof. vm_compute. reflexivity. Qed.
