(* C06 - pc and its variance estimator are unbiased under multinomial sampling.
   gen_pc_n_R / gen_varpc_n_R are regenerated from pyrepseq/stats.py on every run. *)
From Coq Require Import List Arith Reals.
From PV Require Import gen.Gen_stats_R lib.Expect proofs.ExpectP proofs.StdP.
Import ListNotations.
Open Scope R_scope.

(* E p N f: exact expectation of f over N independent draws from the distribution p
   (defined by recursion on N, lib/Expect.v); countsR K xs: the count vector of a sample. *)
Theorem C06_pc_unbiased : forall p, sumR p = 1 -> forall N, (2 <= N)%nat ->
  E p N (fun xs => gen_pc_n_R (countsR (length p) xs)) = sumR (map (fun x => x ^ 2) p).
Proof. exact pc_unbiased. Qed.
Print Assumptions C06_pc_unbiased.

Theorem C06_pc_cross_unbiased : forall p q, length p = length q -> sumR p = 1 -> sumR q = 1 ->
  forall N1 N2, (1 <= N1)%nat -> (1 <= N2)%nat ->
  E p N1 (fun xs => E q N2 (fun ys => pc2R (countsR (length p) xs) (countsR (length p) ys)))
  = sumR (map (fun ab => fst ab * snd ab) (combine p q)).
Proof. exact pc_cross_unbiased. Qed.
Print Assumptions C06_pc_cross_unbiased.

Theorem C06_var_unbiased : forall p, sumR p = 1 -> forall N, (4 <= N)%nat ->
  E p N (fun xs => gen_varpc_n_R (countsR (length p) xs))
  = E p N (fun xs => (gen_pc_n_R (countsR (length p) xs)) ^ 2)
    - (E p N (fun xs => gen_pc_n_R (countsR (length p) xs))) ^ 2.
Proof. exact var_unbiased. Qed.
Print Assumptions C06_var_unbiased.

(* stdpc_n / stdpc (shape regenerated from stats.py): the non-negative square root of varpc_n of the same counts, and the only
   one; where the estimate is negative the implementation returns nan (differential run), the guard excludes exactly that case *)
Theorem C06_std : forall n, 0 <= gen_varpc_n_R n ->
  0 <= gen_stdpc_n_R n /\ gen_stdpc_n_R n * gen_stdpc_n_R n = gen_varpc_n_R n /\
  (forall s, 0 <= s -> s * s = gen_varpc_n_R n -> s = gen_stdpc_n_R n).
Proof. exact stdpc_n_is_root. Qed.
Print Assumptions C06_std.

Theorem C06_std_sample : forall (X : Type) (unique_counts : list X -> list R) (a : list X),
  gen_stdpc_R unique_counts a = sqrt (gen_varpc_n_R (unique_counts a)).
Proof. exact stdpc_sample. Qed.
Print Assumptions C06_std_sample.

Example C06_std_ex : 0 < gen_varpc_n_R [2; 1; 1; 1] /\ gen_varpc_n_R [2; 2] < 0.
Proof. split; [exact varpc_positive_somewhere | exact varpc_negative_somewhere]. Qed.

(* non-vacuity: a concrete distribution and sample size meet the hypotheses *)
Example C06_ex : sumR [1/2; 1/3; 1/6] = 1 /\ (4 <= 5)%nat.
Proof. split; [simpl; field | repeat constructor]. Qed.
