(* C06 - pc and its variance estimator are unbiased under multinomial sampling.
   gen_pc_n_R / gen_varpc_n_R are regenerated from pyrepseq/stats.py on every run. *)
From Coq Require Import List Arith Reals.
From PV Require Import gen.Gen_stats_R lib.Expect proofs.ExpectP.
Import ListNotations.
Open Scope R_scope.

(* E p N f: exact expectation of f over N independent draws from the distribution p
   (defined by recursion on N, lib/Expect.v); countsR K xs: the count vector of a sample. *)
Theorem C06_pc_unbiased : forall p, sumR p = 1 -> forall N, (2 <= N)%nat ->
  E p N (fun xs => gen_pc_n_R (countsR (length p) xs)) = sumR (map (fun x => x ^ 2) p).
Proof. exact pc_unbiased. Qed.
Print Assumptions C06_pc_unbiased.

Theorem C06_pc_cross_unbiased : forall p q, length p = length q -> sumR p = 1 -> sumR q = 1 ->
  forall N1 N2, (1 <= N1)%nat -> (1 <= N2)%nat ->
  E p N1 (fun xs => E q N2 (fun ys => pc2R (countsR (length p) xs) (countsR (length p) ys)))
  = sumR (map (fun ab => fst ab * snd ab) (combine p q)).
Proof. exact pc_cross_unbiased. Qed.
Print Assumptions C06_pc_cross_unbiased.

Theorem C06_var_unbiased : forall p, sumR p = 1 -> forall N, (4 <= N)%nat ->
  E p N (fun xs => gen_varpc_n_R (countsR (length p) xs))
  = E p N (fun xs => (gen_pc_n_R (countsR (length p) xs)) ^ 2)
    - (E p N (fun xs => gen_pc_n_R (countsR (length p) xs))) ^ 2.
Proof. exact var_unbiased. Qed.
Print Assumptions C06_var_unbiased.

(* non-vacuity: a concrete distribution and sample size meet the hypotheses *)
Example C06_ex : sumR [1/2; 1/3; 1/6] = 1 /\ (4 <= 5)%nat.
Proof. split; [simpl; field | repeat constructor]. Qed.
