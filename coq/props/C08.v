(* C08 - string metrics return true (weighted) edit distances in SciPy layout. *)
From Coq Require Import List NArith Bool Arith Lia.
From PV Require Import lib.Edits lib.LevDP lib.Str lib.Condensed proofs.CondensedP.
Import ListNotations.

Definition wdist (wi wd ws : nat) (a b : str) : nat := wlev_dp N.eq_dec wi wd ws a b.   (* what the oracle runs *)

(* the row DP is the minimum total weight over ALL alignments turning a into b (insertions = letters of b
   not taken from a, deletions = letters of a dropped): attained and minimal, for any weights *)
Theorem C08_weighted_optimal : forall wi wd ws (a b : str),
  (exists i d s, edits a b i d s /\ wdist wi wd ws a b = wi * i + wd * d + ws * s) /\
  (forall i d s, edits a b i d s -> wdist wi wd ws a b <= wi * i + wd * d + ws * s).
Proof.
  intros. unfold wdist. rewrite wlev_dp_spec. split.
  - destruct (wlev_attained N.eq_dec wi wd ws a b) as (i & d & s & E & C). exists i, d, s. auto.
  - intros i d s E. apply (wlev_minimal N.eq_dec wi wd ws _ _ _ _ _ E).
Qed.
Print Assumptions C08_weighted_optimal.

Theorem C08_unit_weights_are_levenshtein : forall a b : str, wdist 1 1 1 a b = slev a b.
Proof. intros. unfold wdist. apply wlev_dp_spec. Qed.
Print Assumptions C08_unit_weights_are_levenshtein.

(* no wrap-around: the distance is bounded by wd*len a + wi*len b, so it is stored exactly whenever that
   bound is below 2^32 (uint32, unit weights) resp. 2^24 (float32, weighted) *)
Theorem C08_bounded : forall wi wd ws (a b : str), wdist wi wd ws a b <= wd * length a + wi * length b.
Proof. intros. unfold wdist. rewrite wlev_dp_spec. apply wlev_upper. Qed.
Print Assumptions C08_bounded.

Section Layout.
Context {X D : Type}.
Variable f : X -> X -> D.
Variable d0 : X.
(* the condensed vector: for i < j the distance from X[i] to X[j] sits at m*i + j - (i+2)(i+1)/2 *)
Theorem C08_condensed_layout : forall (xs : list X) i j, i < j -> j < length xs ->
  nth_error (pdist_loop f d0 xs) (cidx (length xs) i j) = Some (f (nth i xs d0) (nth j xs d0)) /\
  length (pdist_loop f d0 xs) = length xs * (length xs - 1) / 2.
Proof. intros. split; [now apply pdist_loop_nth|apply pdist_loop_length]. Qed.

Theorem C08_cdist_layout : forall (xa xb : list X) i j (r0 : list D) (dd : D), i < length xa -> j < length xb ->
  nth j (nth i (cdist_loop f xa xb) r0) dd = f (nth i xa d0) (nth j xb d0).
Proof. intros. now apply cdist_loop_nth_default. Qed.

(* calc_pdist_vector = squareform(calc_cdist_matrix(X, X), checks=False): the strict upper triangle, row-major *)
Theorem C08_pdist_is_squareform_of_cdist : forall (dd : D) (xs : list X),
  squareform_vec dd (cdist_loop f xs xs) = pdist_loop f d0 xs.
Proof. intros. apply squareform_cdist_self. Qed.
End Layout.
Print Assumptions C08_condensed_layout.
Print Assumptions C08_cdist_layout.
Print Assumptions C08_pdist_is_squareform_of_cdist.

Theorem C08_index_bijective : forall m,
  (forall i j i' j', i < j < m -> i' < j' < m -> cidx m i j = cidx m i' j' -> i = i' /\ j = j') /\
  (forall k, k < m * (m - 1) / 2 -> exists i j, i < j /\ j < m /\ cidx m i j = k).
Proof. intros m. split; [intros; eapply cidx_inj; eauto|apply cidx_surj]. Qed.
Print Assumptions C08_index_bijective.

(* ---- closed forms the correspondence run uses where the executable model would be too slow (unary nat): weights far above
   65 535 / strings far longer than 65 535 code points.  All are consequences of C08_weighted_optimal. ---- *)

(* scaling the three weights by c scales the optimal cost by c (so a collection of short strings with weights c*(wi, wd, ws) has the
   distances c * wdist wi wd ws: values above 2^16 without long strings) *)
Theorem C08_scale : forall c wi wd ws (a b : str),
  wdist (c * wi) (c * wd) (c * ws) a b = c * wdist wi wd ws a b.
Proof.
  intros c wi wd ws a b.
  destruct (C08_weighted_optimal wi wd ws a b) as [(i1 & d1 & s1 & E1 & C1) M1].
  destruct (C08_weighted_optimal (c * wi) (c * wd) (c * ws) a b) as [(i2 & d2 & s2 & E2 & C2) M2].
  pose proof (M2 _ _ _ E1) as U. pose proof (M1 _ _ _ E2) as V.
  apply Nat.le_antisymm.
  - rewrite C1. replace (c * (wi * i1 + wd * d1 + ws * s1)) with (c * wi * i1 + c * wd * d1 + c * ws * s1) by ring. exact U.
  - rewrite C2. replace (c * wi * i2 + c * wd * d2 + c * ws * s2) with (c * (wi * i2 + wd * d2 + ws * s2)) by ring.
    apply Nat.mul_le_mono_l. exact V.
Qed.
Print Assumptions C08_scale.

(* against the empty string every letter is inserted resp. deleted; a string against itself costs nothing *)
Theorem C08_empty_and_self : forall wi wd ws (a : str),
  wdist wi wd ws [] a = wi * length a /\ wdist wi wd ws a [] = wd * length a /\ wdist wi wd ws a a = 0.
Proof.
  intros wi wd ws a. unfold wdist. rewrite !wlev_dp_spec. repeat split.
  - apply wlev_nil_r.
  - pose proof (wlev_minimal N.eq_dec wi wd ws _ _ _ _ _ (edits_refl a)) as H. unfold cost in H. lia.
Qed.
Print Assumptions C08_empty_and_self.

(* at least the length difference has to be deleted resp. inserted (with C08_bounded: a two-sided bound that a value wrapped
   modulo 2^16 or clamped at 65 535 cannot meet once the lengths differ by more than 65 535) *)
Theorem C08_length_lower : forall wi wd ws (a b : str),
  wd * (length a - length b) <= wdist wi wd ws a b /\ wi * (length b - length a) <= wdist wi wd ws a b.
Proof.
  intros wi wd ws a b.
  destruct (C08_weighted_optimal wi wd ws a b) as [(i & d & s & E & C) _].
  pose proof (edits_length _ _ _ _ _ E) as L. rewrite C. split.
  - assert (length a - length b <= d) by lia. nia.
  - assert (length b - length a <= i) by lia. nia.
Qed.
Print Assumptions C08_length_lower.

Example C08_ex : wdist 2 3 5 [1;2;3]%N [2;3;4;5]%N = 7 /\ wdist 3 2 5 [1;2;3]%N [2;3;4;5]%N = 8 /\ cidx 5 1 3 = 5.
Proof. repeat split; vm_compute; reflexivity. Qed.

Example C08_ex_scale : wdist 2000 3000 5000 [1;2;3]%N [2;3;4;5]%N = 1000 * wdist 2 3 5 [1;2;3]%N [2;3;4;5]%N /\
  wdist 2 3 5 [] [7;7;8]%N = 6 /\ wdist 2 3 5 [7;7;8]%N [] = 9 /\ 3 * (4 - 1) <= wdist 2 3 5 [1;2;3;4]%N [9]%N.
Proof. split; [apply (C08_scale 1000 2 3 5)|]. repeat split; vm_compute; repeat constructor. Qed.
