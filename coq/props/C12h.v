(* C12 - source tie (second part): isdist1, calculate_neighbor_numbers and the if-cascade of nndist_hamming as written in
   pyrepseq/distance.py today (gen/Gen_c12b.v is regenerated from the source text on every run), on top of the regenerated
   generators and enumeration loops of gen/Gen_c12.v and the regenerated alphabet. *)
From Coq Require Import List Arith Bool NArith.
From PV Require Import lib.Str gen.Gen_consts gen.Gen_c12 gen.Gen_c12b model.Nbrs model.Nndist proofs.GenNbrsP proofs.NndistP.
Import ListNotations.

Theorem C12_source_isdist1 : forall nb x ref, gen_isdist1 nb x ref = isdist1 nb x ref.
Proof. reflexivity. Qed.
Print Assumptions C12_source_isdist1.

Theorem C12_source_neighbor_numbers : forall nb seqs ref,
  gen_calculate_neighbor_numbers nb seqs (Some ref) = neighbor_numbers nb seqs ref /\
  gen_calculate_neighbor_numbers nb seqs None = neighbor_numbers nb seqs (nodup str_eq_dec seqs).
Proof. split; reflexivity. Qed.
Print Assumptions C12_source_neighbor_numbers.

(* nndist_hamming as written, with the library's own hamming_neighbors / _isdist2_hamming / _isdist3_hamming (regenerated) *)
Theorem C12_source_nndist : forall al maxdist x ref,
  gen_nndist_hamming (gen_hamming_neighbors_default al) (gen_isdist2 al) (gen_isdist3 al) x ref maxdist = nndist_ham al maxdist x ref.
Proof.
  intros al maxdist x ref. unfold gen_nndist_hamming, nndist_ham, gen_isdist1.
  rewrite (proj2 (gen_isdist2_both al x ref)), (proj2 (gen_isdist3_both al x ref)).
  unfold isdist1. rewrite (proj2 (gen_hamming_neighbors_both al [] x)). reflexivity.
Qed.
Print Assumptions C12_source_nndist.

(* the documented defaults *)
Theorem C12_source_defaults :
  gen_isdist1_default_neighborhood = 0 /\ gen_neighbor_numbers_default_neighborhood = 0 /\ gen_nndist_default_maxdist = 4.
Proof. repeat split. Qed.

Example C12h_ex : gen_nndist_hamming (gen_hamming_neighbors_default gen_aminoacids) (gen_isdist2 gen_aminoacids) (gen_isdist3 gen_aminoacids)
                    [67;65;70]%N [[67;68;87]; [67;65]]%N 4 = Some 2.
Proof. vm_compute. reflexivity. Qed.
