(* C10 - source tie: the argument validator, the output-name dispatch and the validation call at the head of every engine, as
   written in pyrepseq/nn.py today (gen/Gen_c10.v is regenerated from the source text on every run). *)
From Coq Require Import List Bool Arith ZArith String.
From PV Require Import model.Output gen.Gen_c10 proofs.GenCheckP props.C10.
Import ListNotations.
Open Scope string_scope.

(* the validator as written decides exactly the model's table, for every abstract argument record *)
Theorem C10_source_validator : forall a, gen_check_input a = check_input a.
Proof. exact gen_check_input_eq. Qed.
Print Assumptions C10_source_validator.

(* hence every invalid-argument class of the statement is rejected by the validator as written *)
Theorem C10_source_invalid_rejected : forall a,
  a_len a = 0 \/ a_seqs_strings a = false \/ a_max_edits_int a = false \/ (a_max_edits a < 1)%Z \/
  a_n_cpu_int a = false \/ (a_n_cpu a < 1)%Z \/ a_output_known a = false \/ a_seqs2 a = Some false \/
  (exists v, a_max_returns a = Some (false, v)) \/ (exists b v, a_max_returns a = Some (b, v) /\ (v < 1)%Z) ->
  gen_check_input a = false.
Proof. intros a H. rewrite gen_check_input_eq. now apply C10_invalid_rejected. Qed.
Print Assumptions C10_source_invalid_rejected.

(* 'known output type' means one of the three names: the accepted set is those three (as a set), the formatter dispatches on two of
   them by equality and falls through to the dense form for the third *)
Theorem C10_source_output_names :
  (forall s, In s gen_output_types <-> In s ["triplets"; "coo_matrix"; "ndarray"]) /\ NoDup gen_output_types /\
  incl gen_output_dispatch gen_output_types /\ NoDup gen_output_dispatch /\ List.length gen_output_dispatch = 2 /\
  ~ In "ndarray" gen_output_dispatch.
Proof. exact gen_output_types_ok. Qed.
Print Assumptions C10_source_output_names.

(* every engine starts by validating its own arguments (nearest_neighbor by handing all of them to symdel) *)
Theorem C10_source_engines_validate : forallb snd gen_engines_validate = true /\
  map fst gen_engines_validate = ["kdtree"; "hash_based"; "symdel"; "nearest_neighbor"].
Proof. exact gen_engines_validate_ok. Qed.
Print Assumptions C10_source_engines_validate.

(* non-vacuity: a record that passes and one of each kind that does not *)
Example C10g_ex :
  let ok := {| a_len := 2; a_seqs_strings := true; a_max_edits_int := true; a_max_edits := 1%Z; a_max_returns := None;
               a_n_cpu_int := true; a_n_cpu := 1%Z; a_custom_ok := true; a_maxc_number := true; a_maxc_nonneg := true;
               a_output_known := true; a_seqs2 := None |} in
  gen_check_input ok = true /\
  gen_check_input {| a_len := 0; a_seqs_strings := true; a_max_edits_int := true; a_max_edits := 1%Z; a_max_returns := None;
               a_n_cpu_int := true; a_n_cpu := 1%Z; a_custom_ok := true; a_maxc_number := true; a_maxc_nonneg := true;
               a_output_known := true; a_seqs2 := None |} = false /\
  gen_check_input {| a_len := 2; a_seqs_strings := true; a_max_edits_int := true; a_max_edits := 1%Z; a_max_returns := Some (true, 0%Z);
               a_n_cpu_int := true; a_n_cpu := 1%Z; a_custom_ok := true; a_maxc_number := true; a_maxc_nonneg := true;
               a_output_known := true; a_seqs2 := None |} = false.
Proof. repeat split; reflexivity. Qed.
