(* C04 (also C03, C07, C14) - source tie: _generate_neighbors and class LookupDB (hence hash_based) as written in pyrepseq/nn.py today
   (gen/Gen_c04b.v is regenerated from the source text on every run), on top of the regenerated one-edit generators (gen/Gen_c12.v)
   and alphabet (gen/Gen_consts.v). *)
From Coq Require Import List Arith Bool QArith ZArith.
From PV Require Import lib.Edits lib.Str lib.PyDict gen.Gen_consts gen.Gen_c12 gen.Gen_c03 gen.Gen_c04b
                       model.Symdel model.Nbrs model.Engines proofs.SymdelP proofs.NbrsP proofs.EnginesP proofs.GenNbrsP
                       proofs.GenKdtreeP proofs.GenSymdelDBP proofs.GenLookupDBP.
Import ListNotations.
Close Scope Q_scope.
Open Scope nat_scope.

(* the two neighbourhood functions _generate_neighbors calls with their default arguments *)
Definition src_hn (x : str) : list str := gen_hamming_neighbors_default gen_aminoacids x.
Definition src_ln (x : str) : list str := gen_levenshtein_neighbors gen_aminoacids x.

(* _generate_neighbors: its keys, in insertion order, are the breadth-first edit ball of the model *)
Theorem C04_source_ball : forall q k h,
  map fst (gen_generate_neighbors src_hn src_ln q k h) = ball (if h then ham_nbrs aa_letters else lev_nbrs aa_letters) k q.
Proof.
  intros q k h. rewrite gen_generate_neighbors_ball. apply ball_ext. intros x. unfold src_hn, src_ln.
  rewrite gen_aminoacids_aa_letters. destruct h; [apply gen_hamming_neighbors_default_eq|apply gen_levenshtein_neighbors_eq].
Qed.
Print Assumptions C04_source_ball.

(* LookupDB.__init__: seq_dict[s] = the positions that hold s, in ascending order *)
Theorem C04_source_seq_dict : forall refs e, lget (gen_lookupdb_init refs) e = positions_of refs e.
Proof. exact gen_lookupdb_init_positions. Qed.
Print Assumptions C04_source_seq_dict.

(* the branch that would report the BFS depth instead of a computed distance is never taken: after the substitutions the
   distance is a callable in all three cases *)
Theorem C04_source_modes :
  (forall c, gen_lookup_reports_bfs_depth c = false) /\
  gen_lookup_is_hamming CNone = false /\ gen_lookup_is_hamming CHamming = true /\ gen_lookup_is_hamming CCallable = false /\
  gen_lookup_is_custom CNone = false /\ gen_lookup_is_custom CHamming = false /\ gen_lookup_is_custom CCallable = true /\
  gen_lookup_distance_used CHamming = 0 /\ gen_lookup_distance_used CNone = 1 /\ gen_lookup_distance_used CCallable = 2.
Proof. repeat split. intros []; reflexivity. Qed.
Print Assumptions C04_source_modes.

(* LookupDB.lookup as written = the model's lookup (as lists), in every mode *)
Theorem C04_source_lookup_is_model : forall (D : Type) (cd : str -> str -> D) (leD : D -> D -> bool) (of_depth : nat -> D) (c : cdist_arg)
    (maxc : D) refs queries k pd,
  gen_lookupdb_lookup src_hn src_ln cd leD of_depth (gen_lookupdb_init refs) queries k pd
     (gen_lookup_is_hamming c) (gen_lookup_is_custom c) (gen_lookup_reports_bfs_depth c) maxc
  = lookupdb_lookup (gen_valf cd leD (gen_lookup_is_custom c) maxc)
      (if gen_lookup_is_hamming c then ham_nbrs aa_letters else lev_nbrs aa_letters) k pd refs queries.
Proof.
  intros D cd leD of_depth c maxc refs queries k pd.
  replace (gen_lookup_reports_bfs_depth c) with false by (destruct c; reflexivity).
  rewrite gen_lookupdb_lookup_model. apply lookupdb_lookup_ext; [reflexivity|].
  intros x. unfold src_hn, src_ln. rewrite gen_aminoacids_aa_letters.
  destruct (gen_lookup_is_hamming c); [apply gen_hamming_neighbors_default_eq|apply gen_levenshtein_neighbors_eq].
Qed.
Print Assumptions C04_source_lookup_is_model.

(* hash_based / LookupDB.lookup, default distance: exactly the pairs within max_edits (references over the amino-acid alphabet,
   the documented domain of the substitution / insertion enumeration), each once; max_custom_distance is ignored (D21) *)
Theorem C04_source_lookup_default : forall (maxc : nat) k pd refs queries x y d, (forall s, In s refs -> over_aa s) ->
  (In (x, y, d) (gen_lookupdb_lookup src_hn src_ln slev_x Nat.leb (fun n => n) (gen_lookupdb_init refs) queries k pd
                   (gen_lookup_is_hamming CNone) (gen_lookup_is_custom CNone) (gen_lookup_reports_bfs_depth CNone) maxc) <->
   x < length queries /\ y < length refs /\ (pd = true -> x <> y) /\ d = slev (sget queries x) (sget refs y) /\ d <= k).
Proof.
  intros maxc k pd refs queries x y d Hal. rewrite C04_source_lookup_is_model. simpl gen_lookup_is_hamming. simpl gen_lookup_is_custom. cbv iota.
  rewrite (lookupdb_spec (gen_valf slev_x Nat.leb false maxc) (lev_nbrs aa_letters) k (fun a b => slev a b <= k) pd refs queries x y d).
  - unfold gen_valf. cbv zeta. simpl. rewrite slev_x_spec. split.
    + intros (H1 & H2 & H3 & H4 & [= <-]). auto.
    + intros (H1 & H2 & H3 & -> & H4). repeat split; auto.
  - intros q e He. apply ball_lev. apply Hal. exact He.
Qed.
Print Assumptions C04_source_lookup_default.

(* Hamming mode *)
Theorem C07_source_lookup_hamming : forall (maxc : option nat) k pd refs queries x y d, (forall s, In s refs -> over_aa s) ->
  (In (x, y, d) (gen_lookupdb_lookup src_hn src_ln ham_inf (fun _ _ => true) (fun n => Some n) (gen_lookupdb_init refs) queries k pd
                   (gen_lookup_is_hamming CHamming) (gen_lookup_is_custom CHamming) (gen_lookup_reports_bfs_depth CHamming) maxc) <->
   x < length queries /\ y < length refs /\ (pd = true -> x <> y) /\
   exists h, d = Some h /\ sham (sget queries x) (sget refs y) = Some h /\ h <= k).
Proof.
  intros maxc k pd refs queries x y d Hal. rewrite C04_source_lookup_is_model. simpl gen_lookup_is_hamming. simpl gen_lookup_is_custom. cbv iota.
  rewrite (lookupdb_spec (gen_valf ham_inf (fun _ _ => true) false maxc) (ham_nbrs aa_letters) k
             (fun a b => exists n, sham a b = Some n /\ n <= k) pd refs queries x y d).
  - unfold gen_valf, ham_inf. cbv zeta. simpl. split.
    + intros (H1 & H2 & H3 & (n & Hn & Hk) & [= <-]). repeat split; auto. exists n. auto.
    + intros (H1 & H2 & H3 & h & -> & Hs & Hk). repeat split; auto; [exists h; auto|now rewrite Hs].
  - intros q e He. apply ball_ham. apply Hal. exact He.
Qed.
Print Assumptions C07_source_lookup_hamming.

(* custom distance: inside both radii (max_custom_distance = None stands for inf); the reported value is the custom distance *)
Definition le_optQ (d t : option Q) : bool := negb (gt_optQ d t).
Theorem C14_source_lookup_custom : forall (cust : str -> str -> Q) (maxc : option Q) k pd refs queries x y d,
  (forall s, In s refs -> over_aa s) ->
  (In (x, y, d) (gen_lookupdb_lookup src_hn src_ln (fun a b => Some (cust a b)) le_optQ (fun _ => None) (gen_lookupdb_init refs) queries k pd
                   (gen_lookup_is_hamming CCallable) (gen_lookup_is_custom CCallable) (gen_lookup_reports_bfs_depth CCallable) maxc) <->
   x < length queries /\ y < length refs /\ (pd = true -> x <> y) /\ d = Some (cust (sget queries x) (sget refs y)) /\
   slev (sget queries x) (sget refs y) <= k /\ qle_opt (cust (sget queries x) (sget refs y)) maxc = true).
Proof.
  intros cust maxc k pd refs queries x y d Hal. rewrite C04_source_lookup_is_model. simpl gen_lookup_is_hamming. simpl gen_lookup_is_custom. cbv iota.
  rewrite (lookupdb_spec (gen_valf (fun a b => Some (cust a b)) le_optQ true maxc) (lev_nbrs aa_letters) k (fun a b => slev a b <= k) pd refs queries x y d).
  - unfold gen_valf, le_optQ, gt_optQ, qle_opt. cbv zeta. simpl. destruct maxc as [m|]; simpl.
    + rewrite negb_involutive. destruct (Qle_bool (cust (sget queries x) (sget refs y)) m); split.
      * intros (H1 & H2 & H3 & H4 & [= <-]). auto 8.
      * intros (H1 & H2 & H3 & -> & H4 & _). auto 8.
      * intros (H1 & H2 & H3 & H4 & [=]).
      * intros (H1 & H2 & H3 & _ & _ & [=]).
    + split.
      * intros (H1 & H2 & H3 & H4 & [= <-]). auto 8.
      * intros (H1 & H2 & H3 & -> & H4 & _). auto 8.
  - intros q e He. apply ball_lev. apply Hal. exact He.
Qed.
Print Assumptions C14_source_lookup_custom.

Example C04g_ex :
  map fst (gen_generate_neighbors src_hn src_ln [67]%N 1 true) = ball (ham_nbrs aa_letters) 1 [67]%N /\
  gen_lookupdb_lookup src_hn src_ln slev_x Nat.leb (fun n => n) (gen_lookupdb_init [[67;65];[67];[67;65]]%N) [[67;65]]%N 1 false false false false 0
  = [(0, 0, 0); (0, 2, 0); (0, 1, 1)].
Proof. split; vm_compute; reflexivity. Qed.
