(* C13 - source tie: the weighting tail of stats.pc_conditional as written in pyrepseq/stats.py today (gen/Gen_c13b.v is regenerated
   from the source text on every run): the default weights and the normalised weighted sum. *)
From Coq Require Import List QArith.
From PV Require Import lib.Val gen.Gen_c13b model.Pc model.Grouped proofs.GroupedP proofs.GenCondP.
Import ListNotations.
Open Scope Q_scope.

(* the generated mean is sum_g w_g^2 / (sum_h w_h^2) * pc_g, for weight and value vectors of any length (zip semantics) *)
Theorem C13_source_weighted_mean : forall ws pcs : list Q,
  gen_cond_mean ws pcs == sumQ (map (fun wp => sq (fst wp) / sumQ (map sq ws) * snd wp) (combine ws pcs)).
Proof. exact gen_cond_mean_eq. Qed.
Print Assumptions C13_source_weighted_mean.

(* hence the model's pc_conditional (the statement's "w^2-weighted mean, uniform by default, over the groups with at least two
   members") is the tail as written applied to the pcs of those groups *)
Theorem C13_source_conditional : forall (X : Type) (eqd : forall a b : X, {a = b} + {a <> b}) (w : option (list Q)) (t : @table X),
  let gs := big_groups t in
  let ws := match w with None => gen_cond_default_weights (length gs) | Some l => l end in
  gs <> [] -> length ws = length gs ->
  exists q, pc_conditional eqd w t = V q /\ q == gen_cond_mean ws (map (fun g => pcq eqd (snd g)) gs).
Proof. intros X eqd w t. apply gen_cond_mean_model. Qed.
Print Assumptions C13_source_conditional.

Example C13g_ex : Qeq_bool (gen_cond_mean [1; 2] [1 # 2; 1 # 4]) (3 # 10) = true /\ gen_cond_default_weights 3 = [1; 1; 1].
Proof. split; vm_compute; reflexivity. Qed.
