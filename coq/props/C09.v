(* C09 - TCR Levenshtein metrics are the stated weighted sum over chains and CDR loops.
   Model: model/TcrMetric.v (follows tcr_levenshtein.py / tcr_metric.py; the column names, the substring tests that
   pick the weights, the class scopes and the TCR column set are regenerated from the source into gen/Gen_c09.v on
   every check).  `genes` is the gene reference allele -> (CDR1, CDR2), "" for a loop the allele does not have:
   every theorem holds for every such function (tidytcells' table is an input, not verified here). *)
From Coq Require Import List NArith Bool Arith Lia.
From PV Require Import lib.Edits lib.LevDP lib.Str lib.Condensed proofs.CondensedP gen.Gen_c09
                       model.TcrMetric proofs.TcrMetricP.
Import ListNotations.

Section C09.
Variable genes : str -> str * str.

(* entry [i][j] of calc_cdist_matrix on two accepted tables is the stated double sum over the chains and loops in scope
   of chain_weight * loop_weight * weighted-Levenshtein(loop of anchor row i, loop of comparison row j); shape N x M.
   All six scope combinations, all weights. *)
Theorem C09_sum_form : forall (c : cfg) cs ls (a b : pyobj),
  accepted cs ls a = true -> accepted cs ls b = true ->
  exists m, calc_cdist_matrix genes c cs ls a b = Ok m /\
    length m = length (rows_of a) /\ (forall r, In r m -> length r = length (rows_of b)) /\
    forall i j ra rb, nth_error (rows_of a) i = Some ra -> nth_error (rows_of b) j = Some rb ->
      entry_at m i j = spec_entry genes c cs ls ra rb.
Proof.
  intros c cs ls a b Ha Hb. eexists. split; [apply calc_cdist_ok; assumption|].
  destruct (cdist_shape (spec_entry genes c cs ls) (rows_of a) (rows_of b)) as [L1 L2].
  repeat split; [exact L1|exact L2|]. intros i j ra rb Hi Hj. now apply cdist_entry.
Qed.

(* the per-loop distance inside spec_entry is the minimum alignment cost (insertions = letters of the comparison
   loop not taken from the anchor loop), attained and minimal, for all weights *)
Theorem C09_loop_distance_optimal : forall wi wd ws (x y : str),
  (exists i d s, edits x y i d s /\ wlev N.eq_dec wi wd ws x y = wi * i + wd * d + ws * s) /\
  (forall i d s, edits x y i d s -> wlev N.eq_dec wi wd ws x y <= wi * i + wd * d + ws * s).
Proof.
  intros. split.
  - destruct (wlev_attained N.eq_dec wi wd ws x y) as (i & d & s & E & C). exists i, d, s. auto.
  - intros i d s E. apply (wlev_minimal N.eq_dec wi wd ws _ _ _ _ _ E).
Qed.

(* Cdr3Levenshtein = alpha_weight * AlphaCdr3Levenshtein + beta_weight * BetaCdr3Levenshtein entrywise, and
   CdrLevenshtein = alpha_weight * AlphaCdrLevenshtein + beta_weight * BetaCdrLevenshtein (ls = AllCdr);
   the single-chain classes have no chain weight (unit_chain) *)
Theorem C09_additive : forall (c : cfg) ls (a b : pyobj),
  accepted Paired ls a = true -> accepted Paired ls b = true ->
  accepted AlphaOnly ls a = true -> accepted AlphaOnly ls b = true ->
  accepted BetaOnly ls a = true -> accepted BetaOnly ls b = true ->
  exists m ma mb,
    calc_cdist_matrix genes c Paired ls a b = Ok m /\
    calc_cdist_matrix genes (unit_chain c) AlphaOnly ls a b = Ok ma /\
    calc_cdist_matrix genes (unit_chain c) BetaOnly ls a b = Ok mb /\
    forall i j, i < length (rows_of a) -> j < length (rows_of b) ->
      entry_at m i j = (w_alpha c * entry_at ma i j + w_beta c * entry_at mb i j)%N.
Proof.
  intros c ls a b P1 P2 A1 A2 B1 B2. do 3 eexists.
  repeat split; try (apply calc_cdist_ok; assumption).
  intros i j Hi Hj.
  destruct (nth_error (rows_of a) i) as [ra|] eqn:Ea; [|apply nth_error_None in Ea; lia].
  destruct (nth_error (rows_of b) j) as [rb|] eqn:Eb; [|apply nth_error_None in Eb; lia].
  rewrite !(cdist_entry _ _ _ _ _ _ _ Ea Eb). apply spec_additive.
Qed.

(* the value depends only on the contents of the two rows: not on their labels, their positions, the other rows,
   or the other columns of the tables *)
Theorem C09_row_local : forall (c : cfg) cs ls cols cols' colsb colsb' rows rows' rowsb rowsb' i i' j j' l l' lb lb' ra rb,
  accepted cs ls (Frame cols rows) = true -> accepted cs ls (Frame cols' rows') = true ->
  accepted cs ls (Frame colsb rowsb) = true -> accepted cs ls (Frame colsb' rowsb') = true ->
  nth_error rows i = Some (l, ra) -> nth_error rows' i' = Some (l', ra) ->
  nth_error rowsb j = Some (lb, rb) -> nth_error rowsb' j' = Some (lb', rb) ->
  exists m m', calc_cdist_matrix genes c cs ls (Frame cols rows) (Frame colsb rowsb) = Ok m /\
               calc_cdist_matrix genes c cs ls (Frame cols' rows') (Frame colsb' rowsb') = Ok m' /\
               entry_at m i j = entry_at m' i' j'.
Proof.
  intros c cs ls cols cols' colsb colsb' rows rows' rowsb rowsb' i i' j j' l l' lb lb' ra rb A A' B B' Hi Hi' Hj Hj'.
  do 2 eexists. repeat split; try (apply calc_cdist_ok; assumption).
  rewrite (cdist_entry _ _ _ _ _ _ _ (rows_of_nth _ _ _ _ _ Hi) (rows_of_nth _ _ _ _ _ Hj)).
  rewrite (cdist_entry _ _ _ _ _ _ _ (rows_of_nth _ _ _ _ _ Hi') (rows_of_nth _ _ _ _ _ Hj')). reflexivity.
Qed.

(* calc_pdist_vector is the condensed strict upper triangle of the self cdist: for i < j < m position
   m*i + j - (i+2)(i+1)/2 holds the distance of rows i and j, length m(m-1)/2 *)
Theorem C09_pdist_condensed : forall (c : cfg) cs ls (x : pyobj),
  accepted cs ls x = true ->
  exists v m, calc_pdist_vector genes c cs ls x = Ok v /\ calc_cdist_matrix genes c cs ls x x = Ok m /\
    v = squareform_vec 0%N m /\
    length v = length (rows_of x) * (length (rows_of x) - 1) / 2 /\
    forall i j, i < j -> j < length (rows_of x) ->
      nth_error v (cidx (length (rows_of x)) i j) = Some (entry_at m i j) /\
      entry_at m i j = spec_entry genes c cs ls (nth i (rows_of x) row0) (nth j (rows_of x) row0).
Proof.
  intros c cs ls x Hx. do 2 eexists.
  split; [apply calc_pdist_ok; exact Hx|]. split; [apply calc_cdist_ok; exact Hx|].
  split; [symmetry; apply squareform_cdist_self|]. split; [apply pdist_loop_length|].
  intros i j Hij Hj.
  assert (E : entry_at (cdist_loop (spec_entry genes c cs ls) (rows_of x) (rows_of x)) i j
              = spec_entry genes c cs ls (nth i (rows_of x) row0) (nth j (rows_of x) row0)).
  { apply cdist_entry; apply nth_error_nth'; lia. }
  split; [|exact E]. rewrite E. now apply pdist_loop_nth.
Qed.

(* inputs that are not TCR tables (not a DataFrame, or a frame without any TCR column) give ValueError, and
   only those do *)
Theorem C09_reject : forall (c : cfg) cs ls (a b x : pyobj),
  (calc_cdist_matrix genes c cs ls a b = ValueErr <-> (is_tcr_table a = false \/ is_tcr_table b = false)) /\
  (calc_pdist_vector genes c cs ls x = ValueErr <-> is_tcr_table x = false).
Proof. intros. split; [apply calc_cdist_reject|apply calc_pdist_reject]. Qed.

(* no wrap / rounding: an entry is at most sum chain_weight*loop_weight*(deletion_weight*|anchor loop| +
   insertion_weight*|comparison loop|); whenever that bound is below 2^24 the float32 matrix of the weighted scorer
   (and a fortiori the uint32 matrix of the unit scorer, below 2^32) holds it exactly *)
Theorem C09_bounded : forall (c : cfg) cs ls (ra rb : row),
  (spec_entry genes c cs ls ra rb <= spec_bound genes c cs ls ra rb)%N.
Proof. intros. apply spec_entry_bounded. Qed.

(* the executable specification the oracle evaluates next to the model (it uses no generated fact) is that
   double sum, and the model's answers are exactly the specification's *)
Theorem C09_spec_oracle : forall (c : cfg) cs ls (a b x : pyobj),
  accepted cs ls a = true -> accepted cs ls b = true -> accepted cs ls x = true ->
  calc_cdist_matrix genes c cs ls a b = Ok (spec_cdist genes c cs ls (rows_of a) (rows_of b)) /\
  calc_pdist_vector genes c cs ls x = Ok (spec_pdist genes c cs ls (rows_of x)) /\
  (forall i j ra rb, nth_error (rows_of a) i = Some ra -> nth_error (rows_of b) j = Some rb ->
     entry_at (spec_cdist genes c cs ls (rows_of a) (rows_of b)) i j = spec_entry genes c cs ls ra rb) /\
  (forall y, spec_is_table y = is_tcr_table y).
Proof.
  intros c cs ls a b x Ha Hb Hx. repeat split.
  - rewrite spec_cdist_eq. now apply calc_cdist_ok.
  - rewrite spec_pdist_eq. now apply calc_pdist_ok.
  - intros i j ra rb Hi Hj. rewrite spec_cdist_eq. now apply cdist_entry.
Qed.
End C09.
Print Assumptions C09_sum_form.
Print Assumptions C09_loop_distance_optimal.
Print Assumptions C09_additive.
Print Assumptions C09_row_local.
Print Assumptions C09_pdist_condensed.
Print Assumptions C09_reject.
Print Assumptions C09_bounded.
Print Assumptions C09_spec_oracle.

(* what "TCR table" means in the decision model: a frame with at least one of the six TCR columns *)
Theorem C09_table_decision : forall x : pyobj,
  is_tcr_table x = true <->
  exists cols rows, x = Frame cols rows /\ exists name, In name cols /\
    In name [[67;68;82;51;65]; [67;68;82;51;66]; [84;82;65;74]; [84;82;65;86]; [84;82;66;74]; [84;82;66;86]]%N.
Proof. intros x. rewrite <- tcr_columns_are. apply is_tcr_table_iff. Qed.
Print Assumptions C09_table_decision.

(* checked against today's source text (Gen_c09.v): on each of the six loop columns the substring tests select exactly
   that column's chain weight and loop weight, the multiplier is their product; the column list of every scope is
   the product loops-in-scope x chains-in-scope (each column once) and names columns of the expanded frame; the six
   classes carry the intended scopes *)
Theorem C09_weight_select :
  (forall l ch, col_selectors (col_name (l, ch)) = [Some (chain_sel ch); Some (loop_sel l)]) /\
  (forall (c : cfg) l ch d, apply_weights c (col_name (l, ch)) d = (chain_weight c ch * loop_weight c l * d)%N) /\
  (forall cs ls, decode_all (gen_c09_columns cs ls) = Some (intended_columns cs ls)) /\
  (forall cs ls l ch, In (l, ch) (intended_columns cs ls) <-> In l (loops_of ls) /\ In ch (chains_of cs)) /\
  (forall cs ls, NoDup (intended_columns cs ls)) /\
  map snd gen_c09_classes = [(AlphaOnly, Cdr3Only); (AlphaOnly, AllCdr); (BetaOnly, Cdr3Only); (BetaOnly, AllCdr);
                             (Paired, Cdr3Only); (Paired, AllCdr)].
Proof.
  split; [|split; [|split; [|split; [|split]]]].
  - intros l ch. apply (selectors_ok (l, ch)).
  - apply apply_weights_ok.
  - apply decode_columns.
  - apply intended_is_scope_product.
  - apply intended_nodup.
  - reflexivity.
Qed.
Print Assumptions C09_weight_select.

(* ---- non-vacuity: concrete accepted tables, a gene table with a missing CDR2, asymmetric prime weights ---- *)
Definition ex_genes : str -> str * str :=
  assoc_genes [([1]%N, ([10;11;12]%N, [20;21]%N)); ([2]%N, ([10;12]%N, @nil N));
               ([3]%N, ([30;31]%N, [40;41;42]%N)); ([4]%N, ([30]%N, [40;42]%N))].
Definition ex_cols : list str :=
  [[84;82;65;86]; [67;68;82;51;65]; [84;82;65;74]; [84;82;66;86]; [67;68;82;51;66]; [84;82;66;74]]%N.
Definition ex_A : pyobj := Frame ex_cols [([55]%N, mkrow [1]%N [5;6;7]%N [3]%N [8;9]%N); ([55]%N, mkrow [2]%N [5;7]%N [4]%N [8;9;9]%N)].
Definition ex_B : pyobj := Frame ex_cols [([]%N, mkrow [2]%N (@nil N) [3]%N [9]%N); ([56]%N, mkrow [1]%N [5;6;7]%N [3]%N [8;9]%N);
                                          ([57]%N, mkrow [1]%N [6;7;7]%N [4]%N [8]%N)].
Definition ex_cfg : cfg := mkcfg 2 3 5 7 11 13 17 19.

Example C09_ex_accepted :
  accepted Paired AllCdr ex_A = true /\ accepted Paired AllCdr ex_B = true /\
  accepted AlphaOnly Cdr3Only ex_A = true /\ accepted BetaOnly AllCdr ex_B = true /\
  is_tcr_table NotFrame = false /\ is_tcr_table (Frame [[120]%N] []) = false /\
  accepted Paired Cdr3Only (Frame [[67;68;82;51;65]%N] []) = false.
Proof. repeat split; vm_compute; reflexivity. Qed.

Example C09_ex_values :
  calc_cdist_matrix ex_genes ex_cfg Paired AllCdr ex_A ex_B
    = Ok [[2811; 0; 2282]; [2712; 2211; 2843]]%N /\
  calc_cdist_matrix ex_genes ex_cfg Paired Cdr3Only ex_A ex_B
    = Ok [[1824; 0; 1292]; [2052; 893; 2185]]%N /\
  calc_cdist_matrix ex_genes (unit_chain ex_cfg) AlphaOnly AllCdr ex_A ex_B
    = Ok [[312; 0; 95]; [114; 132; 227]]%N /\
  calc_cdist_matrix ex_genes (unit_chain ex_cfg) BetaOnly AllCdr ex_A ex_B
    = Ok [[57; 0; 147]; [174; 117; 114]]%N /\
  (2811 = 7 * 312 + 11 * 57)%N /\
  (* asymmetric indel weights: the matrix is not symmetric, the vector is its UPPER triangle *)
  calc_cdist_matrix ex_genes ex_cfg BetaOnly AllCdr ex_B ex_B
    = Ok [[0; 418; 2035]; [627; 0; 1617]; [1705; 1078; 0]]%N /\
  calc_pdist_vector ex_genes ex_cfg BetaOnly AllCdr ex_B = Ok [418; 2035; 1617]%N /\
  calc_cdist_matrix ex_genes ex_cfg Paired AllCdr NotFrame ex_B = ValueErr /\
  calc_pdist_vector ex_genes ex_cfg Paired AllCdr (Frame [[120]%N] []) = ValueErr.
Proof. repeat split; vm_compute; reflexivity. Qed.
