(* C13 - grouped, conditional and entropy statistics are compositions of pc and pcDelta.
   Model: model/Grouped.v (a table = list of (group key, feature value) rows). pc / pc2 are the counting forms of C02
   (pc_num, pc_den, pc2_num, pc2_den: theorems of props/C02.v), pcDelta with bin edges is the histogram model of C05 (model/PcDelta.v). *)
From Coq Require Import List ZArith QArith Bool Arith Lia Sorted Reals Qreals.
From PV Require Import lib.Val lib.Condensed lib.Str gen.Gen_c13 model.Pc model.PcDelta model.Grouped proofs.PcP proofs.GroupedP.
Import ListNotations.
Close Scope Q_scope.
Close Scope R_scope.
Open Scope nat_scope.

(* groups: the distinct keys in strictly ascending order (Python's order on strings / numbers / tuples), every key of the
   table exactly once, each group made of exactly the rows with that key (in table order: rows_of is a filter) *)
Theorem C13_groups : forall (X : Type) (t : @table X),
  StronglySorted klt (group_keys t) /\ NoDup (group_keys t) /\
  (forall k, In k (group_keys t) <-> In k (map fst t)) /\
  (forall i, i < length (group_keys t) ->
     nth i (groups t) ([], []) = (nth i (group_keys t) [], rows_of (nth i (group_keys t) []) t)) /\
  (forall k x, In x (rows_of k t) <-> In (k, x) t) /\
  (forall a b : key, klt a b \/ a = b \/ klt b a).
Proof.
  intros X t. repeat split; try apply group_keys_in; try apply rows_of_in.
  - apply group_keys_sorted. - apply group_keys_NoDup. - intros i Hi. now apply groups_nth. - apply klt_total.
Qed.
Print Assumptions C13_groups.

(* pc_conditional: over the groups with at least two members (ascending keys), the w^2-weighted mean of the group pcs;
   NaN when there is no such group; with default weights the arithmetic mean *)
Theorem C13_conditional_mean : forall (X : Type) (eqd : forall a b : X, {a = b} + {a <> b}) (w : option (list Q)) (t : @table X),
  let gs := big_groups t in
  let ws := cond_weights w (length gs) in
  (forall k l, In (k, l) gs <-> In k (map fst t) /\ l = rows_of k t /\ 2 <= length l) /\
  (gs = [] -> pc_conditional eqd w t = NaN) /\
  (gs <> [] -> length ws = length gs ->
     exists q, pc_conditional eqd w t = V q /\
       (q == sumQ (map (fun wg => sq (fst wg) * pcq eqd (snd (snd wg))) (combine ws gs)) / sumQ (map sq ws))%Q) /\
  (gs <> [] -> exists q, pc_conditional eqd None t = V q /\
       (q == sumQ (map (fun g => pcq eqd (snd g)) gs) / qn (length gs))%Q).
Proof.
  intros X eqd w t gs ws. split; [apply big_groups_in|].
  destruct (pc_conditional_value eqd w t) as [H0 [_ H2]]. repeat split; [exact H0|exact H2|].
  apply pc_conditional_uniform.
Qed.
Print Assumptions C13_conditional_mean.

Theorem C13_conditional_range : forall (X : Type) (eqd : forall a b : X, {a = b} + {a <> b}) (w : option (list Q)) (t : @table X) (q : Q),
  match w with None => True | Some ws => Forall (fun x => (0 < x)%Q) ws end ->
  pc_conditional eqd w t = V q -> (0 <= q /\ q <= 1)%Q.
Proof. intros X eqd w t q. apply pc_conditional_range. Qed.
Print Assumptions C13_conditional_range.

(* rows of singleton groups are ignored: removing all of them, or inserting a row with a new key anywhere, changes nothing *)
Theorem C13_singletons_ignored : forall (X : Type) (eqd : forall a b : X, {a = b} + {a <> b}) (w : option (list Q)),
  (forall t : @table X, pc_conditional eqd w (filter (fun r => 2 <=? length (rows_of (fst r) t)) t) = pc_conditional eqd w t) /\
  (forall (a b : @table X) (k : key) (x : X), ~ In k (map fst (a ++ b)) ->
     pc_conditional eqd w (a ++ (k, x) :: b) = pc_conditional eqd w (a ++ b)).
Proof. intros X eqd w. split; [apply pc_conditional_singletons|apply pc_conditional_add_singleton]. Qed.
Print Assumptions C13_singletons_ignored.

(* pc_grouped_cross: a G x G table over the ascending keys; [g][h] = pc(group g, group h) = fraction of coinciding cross
   pairs for g <> h; None (NaN) on the diagonal *)
Theorem C13_cross_entries : forall (X : Type) (eqd : forall a b : X, {a = b} + {a <> b}) (t : @table X) (i j : nat) r0 d1,
  let G := length (group_keys t) in
  let grp := fun i => rows_of (nth i (group_keys t) []) t in
  length (pc_grouped_cross eqd t) = G /\ (forall r, In r (pc_grouped_cross eqd t) -> length r = G) /\
  (i < G -> j < G ->
     nth j (nth i (pc_grouped_cross eqd t) r0) d1 = (if i =? j then None else Some (pc2q eqd (grp i) (grp j))) /\
     pc2q eqd (grp i) (grp j) = (qn (length (cross_pairs eqd (grp i) (grp j))) / qn (length (grp i) * length (grp j)))%Q /\
     1 <= length (grp i)).
Proof.
  intros X eqd t i j r0 d1 G grp. destruct (pc_grouped_cross_shape eqd t) as [S1 S2]. repeat split; try assumption.
  - now apply pc_grouped_cross_entries. - apply pc2q_counts. - now apply grp_nonempty.
Qed.
Print Assumptions C13_cross_entries.

Theorem C13_cross_symmetric : forall (X : Type) (eqd : forall a b : X, {a = b} + {a <> b}) (t : @table X) (i j : nat) r0 d1,
  i < length (group_keys t) -> j < length (group_keys t) ->
  nth j (nth i (pc_grouped_cross eqd t) r0) d1 = nth i (nth j (pc_grouped_cross eqd t) r0) d1 /\
  (forall l1 l2 : list X, pc2q eqd l1 l2 = pc2q eqd l2 l1).
Proof. intros X eqd t i j r0 d1 Hi Hj. split; [now apply pc_grouped_cross_symmetric|apply pc2q_sym]. Qed.
Print Assumptions C13_cross_symmetric.

(* pcDelta_grouped: row i = (key i, pcDelta of group i alone), with bin edges and in the bins = 0 coincidence form
   (pc of the group; None = NaN for a singleton group) *)
Theorem C13_pcdelta_grouped : forall (edges : list Q) (norm : bool) (t : @table str) (i : nat) d d0,
  let G := length (group_keys t) in
  let grp := fun i => rows_of (nth i (group_keys t) []) t in
  length (pcdelta_grouped edges norm t) = G /\ length (pcdelta_grouped0 t) = G /\
  (i < G ->
     nth i (pcdelta_grouped edges norm t) d = (nth i (group_keys t) [], pcd_row norm (pcdelta_counts slev_x (@nil N) edges (grp i) None)) /\
     nth i (pcdelta_grouped0 t) d0 = (nth i (group_keys t) [], if length (grp i) <? 2 then None else Some (pcq str_eq_dec (grp i)))).
Proof.
  intros edges norm t i d d0 G grp. destruct (pcdelta_grouped_length edges norm t) as [L1 L2].
  split; [exact L1|]. split; [exact L2|]. intros Hi. split.
  - now apply pcdelta_grouped_nth.
  - rewrite (pcdelta_grouped0_nth t i d0 Hi). now rewrite pcd0_within_value.
Qed.
Print Assumptions C13_pcdelta_grouped.

(* pcDelta_grouped_cross, condensed: row cidx(G, i, j) (SciPy's condensed index, C08) belongs to the pair (key i, key j), i < j,
   and is the two-collection pcDelta of the two groups *)
Theorem C13_pcdelta_cross_condensed : forall (edges : list Q) (norm : bool) (t : @table str) (i j : nat) d d0,
  let G := length (group_keys t) in
  let grp := fun i => rows_of (nth i (group_keys t) []) t in
  length (pcdelta_cross_condensed edges norm t) = G * (G - 1) / 2 /\ length (cross_index t) = G * (G - 1) / 2 /\
  (i < j -> j < G ->
     nth (cidx G i j) (cross_index t) ([], []) = (nth i (group_keys t) [], nth j (group_keys t) []) /\
     nth (cidx G i j) (pcdelta_cross_condensed edges norm t) d = pcd_row norm (pcdelta_counts slev_x (@nil N) edges (grp i) (Some (grp j))) /\
     nth (cidx G i j) (pcdelta_cross0_condensed t) d0 = val_opt (pc2v str_eq_dec (grp i) (grp j))).
Proof.
  intros edges norm t i j d d0 G grp. repeat split.
  - apply cross_condensed_length.
  - unfold cross_index. rewrite CondensedP.pdist_loop_length. reflexivity.
  - now apply cross_index_nth.
  - now apply pcdelta_cross_condensed_nth.
  - now apply pcdelta_cross0_condensed_nth.
Qed.
Print Assumptions C13_pcdelta_cross_condensed.

(* the square form (bins = 0): G x G; [i][j] and [j][i] both hold the condensed entry cidx(G, i, j) for i < j, which is the
   two-collection value of groups i and j; the diagonal holds the within-group value of pcDelta_grouped *)
Theorem C13_square_layout : forall (t : @table str) (i j : nat) r0 d1,
  let G := length (group_keys t) in
  let grp := fun i => rows_of (nth i (group_keys t) []) t in
  length (pcdelta_cross0_square t) = G /\ (forall r, In r (pcdelta_cross0_square t) -> length r = G) /\
  (i < j -> j < G ->
     nth j (nth i (pcdelta_cross0_square t) r0) d1 = nth (cidx G i j) (pcdelta_cross0_condensed t) None /\
     nth i (nth j (pcdelta_cross0_square t) r0) d1 = nth (cidx G i j) (pcdelta_cross0_condensed t) None) /\
  (i < G -> j < G ->
     nth j (nth i (pcdelta_cross0_square t) r0) d1 = if i =? j then snd (nth i (pcdelta_grouped0 t) ([], None)) else pcd0_cross (grp i) (grp j)).
Proof.
  intros t i j r0 d1 G grp. destruct (pcdelta_cross0_square_shape t) as [S1 S2]. repeat split; try assumption.
  - now apply pcdelta_cross0_square_layout.
  - now apply pcdelta_cross0_square_layout.
  - intros Hi Hj. rewrite (pcdelta_cross0_square_nth t i j r0 d1 Hi Hj).
    destruct (i =? j); [|reflexivity]. now rewrite (pcdelta_grouped0_nth t i _ Hi).
Qed.
Print Assumptions C13_square_layout.

(* renyi2_entropy: the dispatch regenerated from entropy.py on this run selects pc / pc_joint (no `by`) or pc_conditional
   (`by` given), and the entropy is -log_base of that value (natural logarithm for base = None) *)
Theorem C13_entropy_composition : forall (X : Type) (eqd : forall a b : X, {a = b} + {a <> b}) (base : option R)
    (by_falsy is_list : bool) (w : option (list Q)) (t : @table X),
  gen_renyi2_dispatch by_falsy is_list = (if by_falsy then (if is_list then 1 else 0) else 2) /\
  gen_renyi2_args_ok = true /\
  renyi2_entropy_R eqd base by_falsy is_list w t =
    match (if by_falsy then pcv eqd (map snd t) else pc_conditional eqd w t) with
    | V q => Some (match base with None => (- ln (Q2R q))%R | Some b => (- ln (Q2R q) / ln b)%R end)
    | _ => None
    end.
Proof.
  intros X eqd base by_falsy is_list w t. split; [apply gen_renyi2_dispatch_ok|]. split; [apply gen_args_ok|].
  apply renyi2_entropy_composition.
Qed.
Print Assumptions C13_entropy_composition.

(* the two identities through which the harness compares floating-point entropies with exact rationals *)
Theorem C13_entropy_inverse : forall (base : option R) (v : R),
  match base with None => True | Some b => (0 < b)%R /\ b <> 1%R end -> (0 < v)%R ->
  exp (- renyi2_R base v * match base with None => 1 | Some b => ln b end)%R = v.
Proof. exact renyi2_inverse. Qed.
Print Assumptions C13_entropy_inverse.

(* stdrenyi2_entropy = stdpc / (pc * ln base), stdpc = sqrt(varpc); dispatch regenerated from entropy.py *)
Theorem C13_stdrenyi2 : forall (b var v : R) (is_list : bool),
  gen_stdrenyi2_dispatch is_list = (if is_list then (1, 1) else (0, 0)) /\ gen_stdrenyi2_args_ok = true /\
  (v <> 0%R -> ln b <> 0%R -> stdrenyi2_R (Some b) var v = (sqrt var / (v * ln b))%R) /\
  ((0 < b)%R /\ b <> 1%R -> (0 <= var)%R -> v <> 0%R ->
     ((stdrenyi2_R (Some b) var v * ln b) * (stdrenyi2_R (Some b) var v * ln b) = var / (v * v))%R).
Proof.
  intros b var v is_list. split; [destruct is_list; reflexivity|]. split; [apply gen_args_ok|]. split.
  - intros Hv Hb. destruct (stdrenyi2_is_ratio b var v) as [H|[H|H]]; [exact H|contradiction|contradiction].
  - intros Hb Hvar Hv. exact (stdrenyi2_square (Some b) var v Hb Hvar Hv).
Qed.
Print Assumptions C13_stdrenyi2.

(* ---- non-vacuity: a table with unsorted string keys, one singleton group, numeric second key column ---- *)
Definition ex_key (s : Z) (n : Z) : key := [[s]; [n]].
Definition ex_row (s n : Z) (v : N) : key * N := (ex_key s n, v).
Definition ex_table : @table N :=
  [ex_row 98 1 5; ex_row 97 2 6; ex_row 98 1 5; ex_row 97 2 6; ex_row 99 0 7; ex_row 98 1 8; ex_row 97 2 5].
Example C13_ex_groups : group_keys ex_table = [ex_key 97 2; ex_key 98 1; ex_key 99 0] /\
  map (fun g => length (snd g)) (big_groups ex_table) = [3; 3].
Proof. split; vm_compute; reflexivity. Qed.
Example C13_ex_conditional :
  val_wire (pc_conditional N.eq_dec None ex_table) = (0, (1 # 3)%Q) /\
  val_wire (pc_conditional N.eq_dec (Some [1; 2 # 1]%Q) ex_table) = (0, (1 # 3)%Q) /\
  pc_conditional N.eq_dec (Some [1; 2 # 1; 3 # 1]%Q) ex_table = Err /\
  pc_conditional N.eq_dec None [(ex_key 98 1, 5%N); (ex_key 97 1, 5%N)] = NaN.
Proof. repeat split; vm_compute; reflexivity. Qed.
Example C13_ex_cross :
  map (map (option_map Qred)) (pc_grouped_cross N.eq_dec ex_table) =
  [[None; Some (2 # 9); Some 0]; [Some (2 # 9); None; Some 0]; [Some 0; Some 0; None]]%Q.
Proof. vm_compute. reflexivity. Qed.
Definition ex_srow (k : Z) (a b : N) : key * str := ([[k]], [a; b]).
Definition ex_strs : @table str :=
  [ex_srow 98 65 65; ex_srow 97 65 66; ex_srow 98 65 65; ex_srow 97 65 66; ex_srow 99 67 67; ex_srow 98 65 67; ex_srow 97 65 65].
Example C13_ex_square :
  map (map (option_map Qred)) (pcdelta_cross0_square ex_strs) =
  [[Some (1 # 3); Some (2 # 9); Some 0]; [Some (2 # 9); Some (1 # 3); Some 0]; [Some 0; Some 0; None]]%Q /\
  map (fun r => option_map (map Qred) (snd r)) (pcdelta_grouped [0; 1; 2 # 1; 3 # 1]%Q true ex_strs) =
  [Some [1 # 3; 2 # 3; 0]; Some [1 # 3; 2 # 3; 0]; None]%Q /\
  map (option_map (map Qred)) (pcdelta_cross_condensed [0; 1; 2 # 1; 3 # 1]%Q true ex_strs) =
  [Some [2 # 9; 7 # 9; 0]; Some [0; 0; 1]; Some [0; 1 # 3; 2 # 3]]%Q.
Proof. repeat split; vm_compute; reflexivity. Qed.
(* hypotheses of the implications are met: positive weights, a defined value strictly between 0 and 1, indices in range *)
Example C13_ex_hyps :
  big_groups ex_table <> [] /\ length (cond_weights (Some [1; 2 # 1]%Q) 2) = length (big_groups ex_table) /\
  Forall (fun x => (0 < x)%Q) [1; 2 # 1]%Q /\ 1 < 2 /\ 2 < length (group_keys ex_table) /\
  ~ In (ex_key 100 0) (map fst ex_table).
Proof.
  repeat split; try (vm_compute; congruence); try (vm_compute; lia).
  - repeat constructor.
  - vm_compute. intros H. repeat (destruct H as [H|H]; [discriminate|]). exact H.
Qed.
