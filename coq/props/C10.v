(* C10 - search results do not depend on output format or input container. *)
From Coq Require Import List NArith ZArith Bool Arith Lia.
From PV Require Import lib.Edits lib.LevDP lib.Str model.Symdel model.Output proofs.SymdelP proofs.OutputP.
Import ListNotations.

(* dense / COO form of a triplet list in which no pair is repeated: d at [r][q], 0 elsewhere *)
Theorem C10_dense_exact : forall nrows ncols trip r q, NoDup (map fst trip) -> r < nrows -> q < ncols ->
  (forall d, In (q, r, d) trip -> nth q (nth r (coo_dense nrows ncols trip) []) 0%Z = d) /\
  ((forall d, ~ In (q, r, d) trip) -> nth q (nth r (coo_dense nrows ncols trip) []) 0%Z = 0%Z).
Proof.
  intros nrows ncols trip r q ND Hr Hq. rewrite coo_dense_entry by assumption. split.
  - intros d Hd. now apply entry_present.
  - apply entry_absent.
Qed.
Print Assumptions C10_dense_exact.

Theorem C10_shape : forall nrows ncols trip,
  length (coo_dense nrows ncols trip) = nrows /\ Forall (fun row => length row = ncols) (coo_dense nrows ncols trip).
Proof.
  intros. unfold coo_dense. split; [now rewrite map_length, seq_length|].
  apply Forall_forall. intros row H. apply in_map_iff in H as (r & <- & _). now rewrite map_length, seq_length.
Qed.
Print Assumptions C10_shape.

(* combined with C01 / C03: the default engine's matrix holds the exact distance of every neighbouring pair *)
Definition zt (l : list (nat * nat * nat)) : list (nat * nat * Z) := map (fun t => (fst t, Z.of_nat (snd t))) l.
Theorem C10_default_engine_matrix : forall k seqs r q, r < length seqs -> q < length seqs ->
  nth q (nth r (coo_dense (length seqs) (length seqs) (zt (symdel_self Nat.eq_dec (keep_lev k) k seqs))) []) 0%Z
  = if Nat.eqb q r then 0%Z
    else if Nat.leb (slev (sget seqs q) (sget seqs r)) k then Z.of_nat (slev (sget seqs q) (sget seqs r)) else 0%Z.
Proof.
  intros k seqs r q Hr Hq.
  set (res := symdel_self Nat.eq_dec (keep_lev k) k seqs).
  assert (ND: NoDup (map fst (zt res))).
  { unfold zt. rewrite map_map. simpl. rewrite <- (map_map fst (fun p => p)), map_id. fold (@fst (nat*nat) nat).
    apply symdel_self_nodup_pairs; [apply keep_lev_within|apply keep_lev_sym]. }
  destruct (C10_dense_exact (length seqs) (length seqs) (zt res) r q ND Hr Hq) as [P A].
  assert (S: forall d, In (q, r, d) (zt res) <-> exists n, d = Z.of_nat n /\ In (q, r, n) res).
  { intros d. unfold zt. rewrite in_map_iff. split.
    - intros ([[a b] n] & [= -> -> <-] & H). eauto.
    - intros (n & -> & H). exists (q, r, n). auto. }
  unfold res in S.
  destruct (Nat.eqb_spec q r) as [->|Hne].
  - apply A. intros d Hd. apply S in Hd as (n & _ & Hn).
    apply (symdel_self_spec Nat.eq_dec (keep_lev k) k (keep_lev_within k) (keep_lev_sym k)) in Hn. tauto.
  - destruct (Nat.leb_spec (slev (sget seqs q) (sget seqs r)) k) as [L|L].
    + apply P. apply S. eexists. split; [reflexivity|].
      apply (symdel_self_spec Nat.eq_dec (keep_lev k) k (keep_lev_within k) (keep_lev_sym k)).
      repeat split; auto. apply keep_lev_spec. auto.
    + apply A. intros d Hd. apply S in Hd as (n & _ & Hn).
      apply (symdel_self_spec Nat.eq_dec (keep_lev k) k (keep_lev_within k) (keep_lev_sym k)) in Hn.
      destruct Hn as (_ & _ & _ & K). apply keep_lev_spec in K. lia.
Qed.
Print Assumptions C10_default_engine_matrix.

(* every invalid-argument class of the statement is rejected *)
Theorem C10_invalid_rejected : forall a,
  a_len a = 0 \/ a_seqs_strings a = false \/ a_max_edits_int a = false \/ (a_max_edits a < 1)%Z \/
  a_n_cpu_int a = false \/ (a_n_cpu a < 1)%Z \/ a_output_known a = false \/ a_seqs2 a = Some false \/
  (exists v, a_max_returns a = Some (false, v)) \/ (exists b v, a_max_returns a = Some (b, v) /\ (v < 1)%Z) ->
  check_input a = false.
Proof.
  intros a H. unfold check_input.
  destruct H as [H|[H|[H|[H|[H|[H|[H|[H|[(v & H)|(b & v & H & Hv)]]]]]]]]]; rewrite ?H;
    repeat (rewrite ?andb_false_r, ?andb_false_l; simpl); auto.
  - destruct (Z.ltb_spec 0 (a_max_edits a)); [lia|]. now rewrite !andb_false_r.
  - destruct (Z.ltb_spec 0 (a_n_cpu a)); [lia|]. now rewrite !andb_false_r.
  - destruct (Z.ltb_spec 0 v); [lia|]. now rewrite !andb_false_r.
Qed.
Print Assumptions C10_invalid_rejected.

Theorem C10_valid_accepted : forall a,
  0 < a_len a -> a_seqs_strings a = true -> a_max_edits_int a = true -> (1 <= a_max_edits a)%Z ->
  a_max_returns a = None -> a_n_cpu_int a = true -> (1 <= a_n_cpu a)%Z -> a_custom_ok a = true ->
  a_maxc_number a = true -> a_maxc_nonneg a = true -> a_output_known a = true -> a_seqs2 a = None ->
  check_input a = true.
Proof.
  intros a H1 H2 H3 H4 H5 H6 H7 H8 H9 H10 H11 H12. unfold check_input.
  rewrite H2, H3, H5, H6, H8, H9, H10, H11, H12.
  destruct (Nat.ltb_spec 0 (a_len a)); [|lia].
  destruct (Z.ltb_spec 0 (a_max_edits a)); [|lia]. destruct (Z.ltb_spec 0 (a_n_cpu a)); [|lia]. reflexivity.
Qed.
Print Assumptions C10_valid_accepted.

Example C10_ex : coo_dense 2 3 [(0, 1, 5%Z); (2, 0, 7%Z)] = [[0; 0; 7]; [5; 0; 0]]%Z.
Proof. reflexivity. Qed.
