(* C19 - source tie: util.seqs_to_regex and util.seqs_to_consensus AS WRITTEN (align=False behaviour; gen/Gen_c19.v is regenerated from the
   source text on every run) are the models the C19 theorems speak about.  Vocabulary trusted (DESIGN section 3): logomaker's
   alignment_to_matrix as (sorted residues that occur, one row of counts per position), iterrows, row[row > k].index, row.sum(), row.idxmax(). *)
From Coq Require Import List NArith Bool Arith Lia Sorting.Sorted.
From PV Require Import lib.Str model.Summaries model.LmMatrix gen.Gen_c19 proofs.SummariesP proofs.GenSummariesP.
Import ListNotations.

(* the text the source builds is the concrete syntax of the model's expression *)
Theorem C19_source_regex : forall seqs : list str, gen_seqs_to_regex seqs = render (regex_of seqs).
Proof. exact gen_seqs_to_regex_model. Qed.
Print Assumptions C19_source_regex.

(* ... whose language, for gap-free input of a common length, is exactly the strings built from residues observed at each position
   (C19_regex_exact), and which matches every input sequence (C19_regex_inputs) *)
Theorem C19_source_regex_language : forall (seqs : list str) (L : nat),
  Forall (fun s => length s = L) seqs -> seqs <> [] -> gapless seqs ->
  exists r, gen_seqs_to_regex seqs = render r /\
    (forall s, In s seqs -> rmatch r s) /\
    (forall t, rmatch r t <-> length t = L /\ forall p c, nth_error t p = Some c -> exists s, In s seqs /\ nth_error s p = Some c).
Proof.
  intros seqs L HL Hne Hg. exists (regex_of seqs). split; [apply gen_seqs_to_regex_model|]. split.
  - intros s Hs. pose proof (regex_inputs seqs L s HL Hs) as H.
    assert (E : strip_gaps s = s).
    { unfold strip_gaps. assert (F : forall l : str, (forall c, In c l -> is_gap c = false) -> filter residue l = l).
      { induction l as [|a l IH]; intros Hl; cbn [filter]; [reflexivity|]. unfold residue at 1. rewrite (Hl a (or_introl eq_refl)). cbn [negb].
        f_equal. apply IH. intros c Hc. apply Hl. right. exact Hc. }
      apply F. intros c Hc. apply (Hg s c Hs Hc). }
    rewrite E in H. exact H.
  - intros t. apply (regex_exact seqs L t HL Hne Hg).
Qed.
Print Assumptions C19_source_regex_language.

(* the consensus the source builds is the model's: one most frequent residue per kept column *)
Theorem C19_source_consensus : forall seqs : list str, seqs <> [] ->
  gen_seqs_to_consensus seqs = consensus seqs /\
  Forall2 (fun p c => residue c = true /\ 0 < cnt seqs p c /\ forall d, residue d = true -> cnt seqs p d <= cnt seqs p c)
          (kept_positions seqs) (gen_seqs_to_consensus seqs).
Proof.
  intros seqs Hne. split; [apply gen_seqs_to_consensus_model|].
  rewrite gen_seqs_to_consensus_model. apply (consensus_mode seqs Hne).
Qed.
Print Assumptions C19_source_consensus.

Example C19g_ex :
  gen_seqs_to_regex [[67;65;83]; [67;68;83]; [67;65;84]]%N = [67; 91;65;68;93; 91;83;84;93]%N /\
  gen_seqs_to_consensus [[67;65;83]; [67;68;83]; [67;65;84]]%N = [67;65;83]%N /\
  gen_seqs_to_regex [[67;45]; [67;65]]%N = [67; 65; 63]%N.
Proof. vm_compute. repeat split. Qed.
