(* C12 - one-edit neighbourhood generators and the set utilities on them are exact. *)
From Coq Require Import List NArith Bool Arith Lia.
From PV Require Import lib.Edits lib.Str model.Nbrs proofs.NbrsP.
Import ListNotations.

Theorem C12_lev_nbrs_exact : forall al x y, (forall c, In c y -> In c al) ->
  (In y (lev_nbrs al x) <-> slev x y = 1).
Proof. exact lev_nbrs_exact. Qed.
Print Assumptions C12_lev_nbrs_exact.

Theorem C12_lev_nbrs_nothing_else : forall al x y, In y (lev_nbrs al x) ->
  slev x y = 1 /\ one_edit (fun c => In c al) x y.
Proof. intros al x y H. split; [eapply lev_nbrs_lev1; eauto|now apply lev_nbrs_sound]. Qed.
Print Assumptions C12_lev_nbrs_nothing_else.

Theorem C12_lev_nbrs_each_once : forall al x, NoDup al -> NoDup (lev_nbrs al x).
Proof. exact lev_nbrs_nodup. Qed.
Print Assumptions C12_lev_nbrs_each_once.

Theorem C12_ham_nbrs_exact : forall al pos x y,
  In y (ham_nbrs_pos al pos x) <->
  exists i c a, In i pos /\ nth_error x i = Some c /\ In a al /\ a <> c /\ y = firstn i x ++ a :: skipn (S i) x.
Proof. exact ham_nbrs_pos_spec. Qed.
Print Assumptions C12_ham_nbrs_exact.

Theorem C12_ham_nbrs_each_once : forall al pos x, NoDup al -> NoDup pos -> NoDup (ham_nbrs_pos al pos x).
Proof. exact ham_nbrs_pos_nodup. Qed.
Print Assumptions C12_ham_nbrs_each_once.

Theorem C12_ham_nbrs_all_positions : forall al x y,
  (In y (ham_nbrs al x) <-> sham x y = Some 1 /\
     (forall i a b, nth_error x i = Some a -> nth_error y i = Some b -> a <> b -> In b al)) /\
  ham_nbrs_pos al (seq 0 (length x)) x = ham_nbrs al x.
Proof. intros. split; [apply ham_nbrs_exact|apply ham_nbrs_pos_seq]. Qed.
Print Assumptions C12_ham_nbrs_all_positions.

Theorem C12_next_nearest : forall nb m x y,
  In y (next_nearest nb m x) <-> y <> x /\ exists t, 1 <= t <= m /\ reach nb t x y.
Proof. exact next_nearest_spec. Qed.
Print Assumptions C12_next_nearest.

Theorem C12_next_nearest_lev : forall al m x y, (forall c, In c y -> In c al) ->
  (In y (next_nearest (lev_nbrs al) m x) <-> 0 < slev x y <= m).
Proof. exact next_nearest_lev. Qed.
Print Assumptions C12_next_nearest_lev.

Theorem C12_find_pairs : forall nb seqs a b, NoDup seqs -> (forall s, ~ In s (nb s)) ->
  (In (a, b) (find_pairs nb seqs) <-> In a seqs /\ In b seqs /\ In b (nb a) /\ before seqs a b).
Proof. intros nb seqs a b H1 H2. now apply find_pairs_spec. Qed.
Print Assumptions C12_find_pairs.

Theorem C12_find_pairs_each_unordered_pair_once : forall nb seqs a b, NoDup seqs ->
  (forall u v, In v (nb u) -> In u (nb v)) -> (forall s, ~ In s (nb s)) ->
  In a seqs -> In b seqs -> In b (nb a) ->
  NoDup (find_pairs nb seqs) /\
  ((In (a, b) (find_pairs nb seqs) /\ ~ In (b, a) (find_pairs nb seqs)) \/
   (In (b, a) (find_pairs nb seqs) /\ ~ In (a, b) (find_pairs nb seqs))).
Proof. intros. split; [now apply find_pairs_nodup|now apply find_pairs_unordered]. Qed.
Print Assumptions C12_find_pairs_each_unordered_pair_once.

Theorem C12_neighbor_numbers : forall nb seqs ref i, NoDup ref ->
  nth_error (neighbor_numbers nb seqs ref) i =
  option_map (fun s => length (filter (fun r => memb str_eq_dec r (nb s)) ref)) (nth_error seqs i).
Proof. intros. now apply neighbor_numbers_nth_ref. Qed.
Print Assumptions C12_neighbor_numbers.

Theorem C12_isdist1 : forall nb x ref, isdist1 nb x ref = true <-> exists y, In y (nb x) /\ In y ref.
Proof. exact isdist1_spec. Qed.
Print Assumptions C12_isdist1.

Example C12_ex : lev_nbrs [0;1]%N [0;0;1]%N =
  [[0;1]; [0;0]; [1;0;1]; [0;1;1]; [0;0;0]; [0;0;0;1]; [1;0;0;1]; [0;1;0;1]; [0;0;1;1]; [0;0;1;0]]%N.
Proof. vm_compute. reflexivity. Qed.

(* ---- nndist_hamming and its enumeration loops (_isdist2_hamming, _isdist3_hamming): algorithm-mirroring model, proved exact ---- *)
(* C12 (extension) - the enumeration loops of _isdist2_hamming / _isdist3_hamming are exact and
   nndist_hamming returns the nearest equal-length Hamming distance capped at maxdist. *)
From Coq Require Import List NArith Bool Arith Lia.
From PV Require Import lib.Edits lib.Str model.Nbrs model.Nndist proofs.NndistP.
Import ListNotations.

(* the strings the loops visit: exactly those at Hamming distance k whose changed positions carry alphabet letters *)
Theorem C12_subs : forall al x y,
  (In y (subs1 al x) <-> sham x y = Some 1 /\ subst_letters_in al x y) /\
  (In y (subs2 al x) <-> sham x y = Some 2 /\ subst_letters_in al x y) /\
  (In y (subs3 al x) <-> sham x y = Some 3 /\ subst_letters_in al x y).
Proof. intros. split; [apply subs1_spec|split; [apply subs2_spec|apply subs3_spec]]. Qed.
Print Assumptions C12_subs.

Theorem C12_subst_letters_in_meaning : forall al x y,
  subst_letters_in al x y <->
  length x = length y /\
  (forall i a b, nth_error x i = Some a -> nth_error y i = Some b -> a <> b -> In b al).
Proof. exact subst_letters_in_nth. Qed.
Print Assumptions C12_subst_letters_in_meaning.

Theorem C12_isdist2 : forall al x ref,
  isdist2_ham al x ref = true <->
  exists r, In r ref /\ sham x r = Some 2 /\ subst_letters_in al x r.
Proof. exact isdist2_ham_spec. Qed.
Print Assumptions C12_isdist2.

Theorem C12_isdist3 : forall al x ref,
  isdist3_ham al x ref = true <->
  exists r, In r ref /\ sham x r = Some 3 /\ subst_letters_in al x r.
Proof. exact isdist3_ham_spec. Qed.
Print Assumptions C12_isdist3.

(* nearest x ref: the least sham x r over the equal-length members r of ref, 4 when there is none *)
Theorem C12_nearest_meaning : forall x ref,
  (forall d, nearest_opt x ref = Some d <->
     (exists r, In r ref /\ sham x r = Some d) /\
     (forall r h, In r ref -> sham x r = Some h -> d <= h)) /\
  (nearest_opt x ref = None <-> forall r, In r ref -> sham x r = None) /\
  nearest x ref = match nearest_opt x ref with Some d => d | None => 4 end.
Proof.
  intros. split; [intros d; apply nearest_opt_some|split; [apply nearest_opt_none|reflexivity]].
Qed.
Print Assumptions C12_nearest_meaning.

Theorem C12_nndist : forall al maxdist x ref,
  1 <= maxdist <= 4 ->
  (forall r, In r ref -> subst_letters_in al x r \/ sham x r = None) ->
  nndist_ham al maxdist x ref = Some (Nat.min maxdist (nearest x ref)).
Proof. exact nndist_ham_spec. Qed.
Print Assumptions C12_nndist.

(* the same under the simpler hypothesis: every letter of every reference is in the alphabet *)
Theorem C12_nndist_letters : forall al maxdist x ref,
  1 <= maxdist <= 4 ->
  (forall r, In r ref -> forall c, In c r -> In c al) ->
  nndist_ham al maxdist x ref = Some (Nat.min maxdist (nearest x ref)).
Proof. intros al maxdist x ref Hmd Hl. apply nndist_ham_spec; [exact Hmd|now apply ref_over_letters]. Qed.
Print Assumptions C12_nndist_letters.

(* the cap: the result is exact below maxdist and maxdist itself from there on; it never exceeds maxdist,
   is a lower bound of every equal-length distance, and is attained when below maxdist *)
Theorem C12_nndist_cap : forall al maxdist x ref,
  1 <= maxdist <= 4 ->
  (forall r, In r ref -> subst_letters_in al x r \/ sham x r = None) ->
  (nearest x ref < maxdist -> nndist_ham al maxdist x ref = Some (nearest x ref)) /\
  (maxdist <= nearest x ref -> nndist_ham al maxdist x ref = Some maxdist) /\
  (forall d, nndist_ham al maxdist x ref = Some d ->
     d <= maxdist /\
     (forall r h, In r ref -> sham x r = Some h -> d <= h) /\
     (d < maxdist -> exists r, In r ref /\ sham x r = Some d)).
Proof.
  intros al maxdist x ref Hmd Hover.
  destruct (nndist_ham_cases al maxdist x ref Hmd Hover) as [H1 H2].
  split; [exact H1|split; [exact H2|]]. intros d. now apply nndist_ham_meaning.
Qed.
Print Assumptions C12_nndist_cap.

(* outside 1..4: maxdist > 4 is refused (NotImplementedError); maxdist = 0 is not special-cased
   by the code and behaves like maxdist = 4 *)
Theorem C12_nndist_outside : forall al x ref,
  (forall maxdist, 4 < maxdist -> nndist_ham al maxdist x ref = None) /\
  nndist_ham al 0 x ref = nndist_ham al 4 x ref.
Proof. intros. split; [intros; now apply nndist_ham_unsupported|apply nndist_ham_0]. Qed.
Print Assumptions C12_nndist_outside.

(* the modelled loops agree with the specification-level fold api_nndist_ham of extract/Api.v
   that the C12 correspondence run compares the implementation with *)
Theorem C12_nndist_is_spec_fold : forall al maxdist x ref,
  1 <= maxdist <= 4 ->
  (forall r, In r ref -> subst_letters_in al x r \/ sham x r = None) ->
  nndist_ham al maxdist x ref =
  Some (fold_left (fun m r => match sham x r with Some h => Nat.min m h | None => m end) ref maxdist).
Proof. exact nndist_ham_fold. Qed.
Print Assumptions C12_nndist_is_spec_fold.

(* alphabet A C D, x = AAA; references: one of another length, one at distance 3, one at distance 2 *)
Example C12x_ex_subs2 : subs2 [65;67;68]%N [65;65;65]%N =
  [[67;67;65]; [67;68;65]; [67;65;67]; [67;65;68];
   [68;67;65]; [68;68;65]; [68;65;67]; [68;65;68];
   [65;67;67]; [65;67;68]; [65;68;67]; [65;68;68]]%N.
Proof. vm_compute. reflexivity. Qed.

Example C12x_ex_nndist :
  let al := [65;67;68]%N in let x := [65;65;65]%N in
  let ref := [[65;65]; [67;68;67]; [65;68;67]]%N in
  (forall r, In r ref -> forall c, In c r -> In c al) /\
  map (fun md => nndist_ham al md x ref) [0;1;2;3;4;5] = [Some 2; Some 1; Some 2; Some 2; Some 2; None] /\
  nndist_ham al 4 x [[65;65]; [67;68;67]]%N = Some 3 /\
  nndist_ham al 4 x [[65;65]]%N = Some 4 /\
  nearest x ref = 2 /\ nearest x [[65;65]]%N = 4 /\
  isdist2_ham al x ref = true /\ isdist3_ham al x ref = true /\
  isdist2_ham al x [[67;68;67]]%N = false /\
  length (subs3 al x) = 8.
Proof.
  cbv zeta. split.
  - intros r Hr c Hc. simpl in Hr.
    repeat (destruct Hr as [<-|Hr]; [simpl in Hc; intuition auto|]); try contradiction;
      simpl; intuition auto.
  - vm_compute. repeat split; reflexivity.
Qed.

(* a letter outside the alphabet: the loops cannot reach the reference (the hypothesis of C12_nndist is needed) *)
Example C12x_ex_outside :
  nndist_ham [65;67;68]%N 4 [65;65;65]%N [[65;65;90]]%N = Some 4 /\ nearest [65;65;65]%N [[65;65;90]]%N = 1.
Proof. vm_compute. split; reflexivity. Qed.
