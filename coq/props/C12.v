(* C12 - one-edit neighbourhood generators and the set utilities on them are exact. *)
From Coq Require Import List NArith Bool Arith Lia.
From PV Require Import lib.Edits lib.Str model.Nbrs proofs.NbrsP.
Import ListNotations.

Theorem C12_lev_nbrs_exact : forall al x y, (forall c, In c y -> In c al) ->
  (In y (lev_nbrs al x) <-> slev x y = 1).
Proof. exact lev_nbrs_exact. Qed.
Print Assumptions C12_lev_nbrs_exact.

Theorem C12_lev_nbrs_nothing_else : forall al x y, In y (lev_nbrs al x) ->
  slev x y = 1 /\ one_edit (fun c => In c al) x y.
Proof. intros al x y H. split; [eapply lev_nbrs_lev1; eauto|now apply lev_nbrs_sound]. Qed.
Print Assumptions C12_lev_nbrs_nothing_else.

Theorem C12_lev_nbrs_each_once : forall al x, NoDup al -> NoDup (lev_nbrs al x).
Proof. exact lev_nbrs_nodup. Qed.
Print Assumptions C12_lev_nbrs_each_once.

Theorem C12_ham_nbrs_exact : forall al pos x y,
  In y (ham_nbrs_pos al pos x) <->
  exists i c a, In i pos /\ nth_error x i = Some c /\ In a al /\ a <> c /\ y = firstn i x ++ a :: skipn (S i) x.
Proof. exact ham_nbrs_pos_spec. Qed.
Print Assumptions C12_ham_nbrs_exact.

Theorem C12_ham_nbrs_each_once : forall al pos x, NoDup al -> NoDup pos -> NoDup (ham_nbrs_pos al pos x).
Proof. exact ham_nbrs_pos_nodup. Qed.
Print Assumptions C12_ham_nbrs_each_once.

Theorem C12_ham_nbrs_all_positions : forall al x y,
  (In y (ham_nbrs al x) <-> sham x y = Some 1 /\
     (forall i a b, nth_error x i = Some a -> nth_error y i = Some b -> a <> b -> In b al)) /\
  ham_nbrs_pos al (seq 0 (length x)) x = ham_nbrs al x.
Proof. intros. split; [apply ham_nbrs_exact|apply ham_nbrs_pos_seq]. Qed.
Print Assumptions C12_ham_nbrs_all_positions.

Theorem C12_next_nearest : forall nb m x y,
  In y (next_nearest nb m x) <-> y <> x /\ exists t, 1 <= t <= m /\ reach nb t x y.
Proof. exact next_nearest_spec. Qed.
Print Assumptions C12_next_nearest.

Theorem C12_next_nearest_lev : forall al m x y, (forall c, In c y -> In c al) ->
  (In y (next_nearest (lev_nbrs al) m x) <-> 0 < slev x y <= m).
Proof. exact next_nearest_lev. Qed.
Print Assumptions C12_next_nearest_lev.

Theorem C12_find_pairs : forall nb seqs a b, NoDup seqs -> (forall s, ~ In s (nb s)) ->
  (In (a, b) (find_pairs nb seqs) <-> In a seqs /\ In b seqs /\ In b (nb a) /\ before seqs a b).
Proof. intros nb seqs a b H1 H2. now apply find_pairs_spec. Qed.
Print Assumptions C12_find_pairs.

Theorem C12_find_pairs_each_unordered_pair_once : forall nb seqs a b, NoDup seqs ->
  (forall u v, In v (nb u) -> In u (nb v)) -> (forall s, ~ In s (nb s)) ->
  In a seqs -> In b seqs -> In b (nb a) ->
  NoDup (find_pairs nb seqs) /\
  ((In (a, b) (find_pairs nb seqs) /\ ~ In (b, a) (find_pairs nb seqs)) \/
   (In (b, a) (find_pairs nb seqs) /\ ~ In (a, b) (find_pairs nb seqs))).
Proof. intros. split; [now apply find_pairs_nodup|now apply find_pairs_unordered]. Qed.
Print Assumptions C12_find_pairs_each_unordered_pair_once.

Theorem C12_neighbor_numbers : forall nb seqs ref i, NoDup ref ->
  nth_error (neighbor_numbers nb seqs ref) i =
  option_map (fun s => length (filter (fun r => memb str_eq_dec r (nb s)) ref)) (nth_error seqs i).
Proof. intros. now apply neighbor_numbers_nth_ref. Qed.
Print Assumptions C12_neighbor_numbers.

Theorem C12_isdist1 : forall nb x ref, isdist1 nb x ref = true <-> exists y, In y (nb x) /\ In y ref.
Proof. exact isdist1_spec. Qed.
Print Assumptions C12_isdist1.

Example C12_ex : lev_nbrs [0;1]%N [0;0;1]%N =
  [[0;1]; [0;0]; [1;0;1]; [0;1;1]; [0;0;0]; [0;0;0;1]; [1;0;0;1]; [0;1;0;1]; [0;0;1;1]; [0;0;1;0]]%N.
Proof. vm_compute. reflexivity. Qed.
