(* C08 (source tie): the loop nests of distance.pdist / distance.cdist, regenerated from the source text on every
   run (gen/Gen_c08.v), compute exactly the layout model the C08 theorems are about -- for every metric f (an
   uninterpreted function, keyword arguments included), every default of an uninitialised cell, every input. *)
From Coq Require Import List Arith ZArith.
From PV Require Import lib.Condensed lib.PyStore gen.Gen_c08 proofs.CondensedP proofs.GenDistP.
Import ListNotations.

Section Source.
Context {X D : Type}.
Variable f : X -> X -> D.
Variable d0 : X.
Variable dd : D.

Theorem C08_source_pdist : forall xs : list X, gen_pdist f d0 dd xs = pdist_loop f d0 xs.
Proof. exact (gen_pdist_eq f d0 dd). Qed.

Theorem C08_source_cdist : forall xa xb : list X, gen_cdist f d0 dd xa xb = cdist_loop f xa xb.
Proof. exact (gen_cdist_eq f d0 dd). Qed.

(* no cell of the np.empty vector is left over or missing *)
Theorem C08_source_pdist_length : forall xs : list X,
  length (gen_pdist f d0 dd xs) = length xs * (length xs - 1) / 2.
Proof. exact (gen_pdist_length f d0 dd). Qed.
End Source.
Print Assumptions C08_source_pdist.
Print Assumptions C08_source_cdist.
Print Assumptions C08_source_pdist_length.

(* the regenerated text runs: an injective metric f a b = 10 a + b on 0..3 shows the layout 01 02 03 12 13 23
   (99 = the uninitialised-cell value: none is left), and the 2 x 3 matrix of cdist *)
Example C08g_ex_pdist : gen_pdist (fun a b => 10 * a + b) 0 99 [0; 1; 2; 3] = [1; 2; 3; 12; 13; 23].
Proof. vm_compute. reflexivity. Qed.
Example C08g_ex_cdist : gen_cdist (fun a b => 10 * a + b) 0 99 [1; 2] [3; 4; 5] = [[13; 14; 15]; [23; 24; 25]].
Proof. vm_compute. reflexivity. Qed.
Example C08g_ex_empty : gen_pdist (fun a b => 10 * a + b) 0 99 [] = [] /\ gen_pdist (fun a b => 10 * a + b) 0 99 [7] = []
  /\ gen_cdist (fun a b => 10 * a + b) 0 99 [] [1] = [] /\ gen_cdist (fun a b => 10 * a + b) 0 99 [1] [] = [[]].
Proof. vm_compute. repeat split. Qed.
