(* C15 - clusters are the connected components / SciPy clusters of the stated distances. *)
From Coq Require Import List NArith Bool Arith Lia.
From PV Require Import lib.Edits lib.LevDP lib.Str lib.Condensed model.Symdel model.Cluster proofs.SymdelP proofs.ClusterP proofs.CondensedP.
Import ListNotations.

(* the executable labelling puts two nodes in one cluster exactly when a path of edges connects them *)
Theorem C15_components : forall n E u v, edges_ok n E -> u < n -> v < n ->
  (nth u (components n E) 0 = nth v (components n E) 0 <-> connected E u v).
Proof. exact components_spec. Qed.
Print Assumptions C15_components.

(* graph_clustering('cc'): only nodes whose cluster has another member; isolated nodes / no edges give nothing *)
Theorem C15_cc_output : forall n E u c, edges_ok n E ->
  (In (u, c) (graph_cc n E) <->
   u < n /\ c = nth u (components n E) 0 /\ exists v, v < n /\ v <> u /\ connected E u v).
Proof. exact graph_cc_spec. Qed.
Print Assumptions C15_cc_output.

Theorem C15_no_edges_no_clusters : forall n, graph_cc n [] = [].
Proof. exact graph_cc_nil. Qed.
Print Assumptions C15_no_edges_no_clusters.

(* "never places nodes of different connected components in one cluster" = refinement, decided by `refines` *)
Theorem C15_refinement : forall n E P, edges_ok n E -> length P = n ->
  (refines P (components n E) = true <-> forall i j, i < n -> j < n -> nth i P 0 = nth j P 0 -> connected E i j).
Proof. exact refines_components. Qed.
Print Assumptions C15_refinement.

(* the max_edits = t neighbour list is the threshold graph of the Levenshtein distances *)
Definition nn_edges (t : nat) (seqs : list str) : list edge :=
  map fst (symdel_self Nat.eq_dec (keep_lev t) t seqs).
Theorem C15_threshold_graph : forall t seqs i j,
  In (i, j) (nn_edges t seqs) <-> i < length seqs /\ j < length seqs /\ i <> j /\ slev (sget seqs i) (sget seqs j) <= t.
Proof.
  intros t seqs i j. unfold nn_edges. rewrite in_map_iff. split.
  - intros ([[a b] d] & [= -> ->] & H).
    apply (symdel_self_spec Nat.eq_dec (keep_lev t) t (keep_lev_within t) (keep_lev_sym t)) in H.
    destruct H as (H1 & H2 & H3 & K). apply keep_lev_spec in K as [-> K]. auto.
  - intros (H1 & H2 & H3 & K). exists (i, j, slev (sget seqs i) (sget seqs j)). split; auto.
    apply (symdel_self_spec Nat.eq_dec (keep_lev t) t (keep_lev_within t) (keep_lev_sym t)).
    repeat split; auto. apply keep_lev_spec. auto.
Qed.
Print Assumptions C15_threshold_graph.

Theorem C15_threshold_graph_edges_ok : forall t seqs, edges_ok (length seqs) (nn_edges t seqs).
Proof.
  intros t seqs. unfold edges_ok. apply Forall_forall. intros [i j] H.
  apply C15_threshold_graph in H. simpl. tauto.
Qed.
Print Assumptions C15_threshold_graph_edges_ok.

(* single linkage (naive agglomerative model: repeatedly merge the two clusters at minimum inter-cluster minimum
   distance, recording (members, height)) cut with fcluster(criterion='distance', t) -- join everything merged at
   height <= t -- puts two points in one flat cluster exactly when a path of pairs at distance <= t connects them.
   Holds for every distance function D on 0..n-1; symmetry of D is not needed because the model looks at both
   orders of every pair of clusters (for a symmetric D this is the usual algorithm). *)
Theorem C15_single_linkage_cut : forall n D t u v, u < n -> v < n ->
  (nth u (sl_cut n D t) 0 = nth v (sl_cut n D t) 0 <-> connected (threshold_graph n D t) u v).
Proof. exact single_linkage_cut. Qed.
Print Assumptions C15_single_linkage_cut.

(* the threshold graph has an edge for every pair of distinct points with D u v <= t *)
Theorem C15_threshold_graph_edges : forall n D t i j,
  In (i, j) (threshold_graph n D t) <-> i < n /\ j < n /\ i <> j /\ D i j <= t.
Proof. exact threshold_graph_in. Qed.
Print Assumptions C15_threshold_graph_edges.

(* merge heights never decrease, so "merged at height <= t" is a prefix of the dendrogram (what fcluster's
   max-height-in-subtree criterion selects) *)
Theorem C15_single_linkage_monotone : forall n D, Sorted.StronglySorted le (map snd (single_linkage n D)).
Proof. exact single_linkage_heights_sorted. Qed.
Print Assumptions C15_single_linkage_monotone.

(* combined with C15_threshold_graph: single linkage at t on the Levenshtein distance matrix = connected
   components of the max_edits = t neighbour graph *)
Theorem C15_single_linkage_neighbour_graph : forall t seqs u v, u < length seqs -> v < length seqs ->
  (nth u (sl_cut (length seqs) (mat_dist (lev_matrix seqs)) t) 0 = nth v (sl_cut (length seqs) (mat_dist (lev_matrix seqs)) t) 0
   <-> nth u (components (length seqs) (nn_edges t seqs)) 0 = nth v (components (length seqs) (nn_edges t seqs)) 0).
Proof.
  intros t seqs u v Hu Hv.
  rewrite (single_linkage_cut _ _ t u v Hu Hv).
  rewrite (components_spec _ _ u v (C15_threshold_graph_edges_ok t seqs) Hu Hv).
  apply connected_same_edges. intros a b.
  rewrite threshold_graph_in, C15_threshold_graph. unfold mat_dist, lev_matrix, sget.
  split; intros (Ha & Hb & Hne & Hd); repeat split; auto.
  - rewrite (cdist_loop_nth_default slev_x [] seqs seqs a b [] 0 Ha Hb), slev_x_spec in Hd. exact Hd.
  - rewrite (cdist_loop_nth_default slev_x [] seqs seqs a b [] 0 Ha Hb), slev_x_spec. exact Hd.
Qed.
Print Assumptions C15_single_linkage_neighbour_graph.

Example C15_single_linkage_ex :
  let seqs := [[1;2;3];[1;2;4];[1;2];[7;7;7;7];[1;2;3]]%N in
  let D := mat_dist (lev_matrix seqs) in
  single_linkage 5 D = [([0;4], 0); ([0;4;1], 1); ([0;4;1;2], 1); ([0;4;1;2;3], 4)] /\
  sl_cut 5 D 0 = [0;1;2;3;0] /\ sl_cut 5 D 1 = [0;0;0;3;0] /\ sl_cut 5 D 3 = [0;0;0;3;0] /\ sl_cut 5 D 4 = [0;0;0;0;0] /\
  components 5 (nn_edges 1 seqs) = [0;0;0;3;0] /\ connected (threshold_graph 5 D 1) 2 4.
Proof.
  repeat split; try (vm_compute; reflexivity).
  apply (C15_single_linkage_cut 5 _ 1 2 4); [lia|lia|vm_compute; reflexivity].
Qed.

Example C15_ex : components 6 [(0,1);(1,0);(3,4);(4,3);(4,5);(5,4)] = [0;0;2;3;3;3] /\
  graph_cc 6 [(0,1);(1,0);(3,4);(4,3);(4,5);(5,4)] = [(0,0);(1,0);(3,3);(4,3);(5,3)] /\
  refines [7;7;8;9;9;1] (components 6 [(0,1);(3,4);(4,5)]) = true.
Proof. repeat split; vm_compute; reflexivity. Qed.
