(* C15 - clusters are the connected components / SciPy clusters of the stated distances. *)
From Coq Require Import List NArith Bool Arith Lia.
From PV Require Import lib.Edits lib.LevDP lib.Str model.Symdel model.Cluster proofs.SymdelP proofs.ClusterP.
Import ListNotations.

(* the executable labelling puts two nodes in one cluster exactly when a path of edges connects them *)
Theorem C15_components : forall n E u v, edges_ok n E -> u < n -> v < n ->
  (nth u (components n E) 0 = nth v (components n E) 0 <-> connected E u v).
Proof. exact components_spec. Qed.
Print Assumptions C15_components.

(* graph_clustering('cc'): only nodes whose cluster has another member; isolated nodes / no edges give nothing *)
Theorem C15_cc_output : forall n E u c, edges_ok n E ->
  (In (u, c) (graph_cc n E) <->
   u < n /\ c = nth u (components n E) 0 /\ exists v, v < n /\ v <> u /\ connected E u v).
Proof. exact graph_cc_spec. Qed.
Print Assumptions C15_cc_output.

Theorem C15_no_edges_no_clusters : forall n, graph_cc n [] = [].
Proof. exact graph_cc_nil. Qed.
Print Assumptions C15_no_edges_no_clusters.

(* "never places nodes of different connected components in one cluster" = refinement, decided by `refines` *)
Theorem C15_refinement : forall n E P, edges_ok n E -> length P = n ->
  (refines P (components n E) = true <-> forall i j, i < n -> j < n -> nth i P 0 = nth j P 0 -> connected E i j).
Proof. exact refines_components. Qed.
Print Assumptions C15_refinement.

(* the max_edits = t neighbour list is the threshold graph of the Levenshtein distances *)
Definition nn_edges (t : nat) (seqs : list str) : list edge :=
  map fst (symdel_self Nat.eq_dec (keep_lev t) t seqs).
Theorem C15_threshold_graph : forall t seqs i j,
  In (i, j) (nn_edges t seqs) <-> i < length seqs /\ j < length seqs /\ i <> j /\ slev (sget seqs i) (sget seqs j) <= t.
Proof.
  intros t seqs i j. unfold nn_edges. rewrite in_map_iff. split.
  - intros ([[a b] d] & [= -> ->] & H).
    apply (symdel_self_spec Nat.eq_dec (keep_lev t) t (keep_lev_within t) (keep_lev_sym t)) in H.
    destruct H as (H1 & H2 & H3 & K). apply keep_lev_spec in K as [-> K]. auto.
  - intros (H1 & H2 & H3 & K). exists (i, j, slev (sget seqs i) (sget seqs j)). split; auto.
    apply (symdel_self_spec Nat.eq_dec (keep_lev t) t (keep_lev_within t) (keep_lev_sym t)).
    repeat split; auto. apply keep_lev_spec. auto.
Qed.
Print Assumptions C15_threshold_graph.

Theorem C15_threshold_graph_edges_ok : forall t seqs, edges_ok (length seqs) (nn_edges t seqs).
Proof.
  intros t seqs. unfold edges_ok. apply Forall_forall. intros [i j] H.
  apply C15_threshold_graph in H. simpl. tauto.
Qed.
Print Assumptions C15_threshold_graph_edges_ok.

Example C15_ex : components 6 [(0,1);(1,0);(3,4);(4,3);(4,5);(5,4)] = [0;0;2;3;3;3] /\
  graph_cc 6 [(0,1);(1,0);(3,4);(4,3);(4,5);(5,4)] = [(0,0);(1,0);(3,3);(4,3);(5,3)] /\
  refines [7;7;8;9;9;1] (components 6 [(0,1);(3,4);(4,5)]) = true.
Proof. repeat split; vm_compute; reflexivity. Qed.
