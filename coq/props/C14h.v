(* C14 - source tie (second part): the glue of nn.nearest_neighbor_tcrdist and nn._lookup AS WRITTEN (gen/Gen_c14b.v is regenerated from the
   source text on every run).  Vocabulary trusted (DESIGN section 3): Python slice semantics (lib/PySlice.v), ndarray.flat on a table stored
   row by row, dict(..).update(..), boolean row selection. *)
From Coq Require Import List ZArith Bool Arith NArith Lia.
From PV Require Import lib.Str lib.PySlice model.Tcrdist gen.Gen_c14b proofs.GenTcrdistP.
Import ListNotations.

(* the CDR3 the candidate search runs on (edit_on_trimmed) is the model's slice, for EVERY ntrim and ctrim *)
Theorem C14_source_trim : forall (ntrim ctrim : nat) (s : str), gen_trim_slice ntrim ctrim s = pyslice ntrim ctrim s.
Proof. exact gen_trim_slice_model. Qed.
Print Assumptions C14_source_trim.

(* ... in particular ctrim = 0 trims nothing at the C-terminal end (defect D22 was `s[ntrim:-ctrim]`, empty for ctrim = 0), and the
   trimmed string has the residues ntrim .. len - ctrim - 1 *)
Theorem C14_source_trim_meaning : forall (ntrim ctrim : nat) (s : str),
  gen_trim_slice ntrim 0 s = skipn ntrim s /\
  length (gen_trim_slice ntrim ctrim s) = length s - ctrim - ntrim /\
  (forall i, i < length s - ctrim - ntrim -> nth_error (gen_trim_slice ntrim ctrim s) i = nth_error s (ntrim + i)).
Proof.
  intros ntrim ctrim s. rewrite !gen_trim_slice_model. unfold pyslice. split; [|split].
  - rewrite Nat.sub_0_r. apply firstn_all2. rewrite skipn_length. lia.
  - rewrite firstn_length, skipn_length. lia.
  - intros i Hi. rewrite <- (firstn_skipn (ntrim + i) s) at 2.
    assert (F : forall (l : list N) k j, j < k -> nth_error (firstn k l) j = nth_error l j).
    { induction l as [|a l IH]; intros k j Hj; destruct k; try lia; [destruct j; reflexivity|]. destruct j; cbn; [reflexivity|apply IH; lia]. }
    assert (S : forall (l : list N) a j, nth_error (skipn a l) j = nth_error l (a + j)).
    { induction l as [|x l IH]; intros a j; destruct a; cbn; try reflexivity; [destruct j; reflexivity|apply IH]. }
    rewrite F by exact Hi. rewrite S. rewrite firstn_skipn. reflexivity.
Qed.
Print Assumptions C14_source_trim_meaning.

(* _lookup: the flat index addresses row ridx, column cidx of the V-gene table *)
Theorem C14_source_lookup : forall (m : list (list Z)) (ncols : nat), Forall (fun row => length row = ncols) m ->
  forall ridx cidx d, ridx < length m -> cidx < ncols ->
  nth (gen_flat_index ridx cidx ncols) (concat m) d = nth cidx (nth ridx m []) d.
Proof. exact gen_flat_index_entry. Qed.
Print Assumptions C14_source_lookup.

(* the distance is V distance + CDR3 distance, a pair is kept iff that distance is at most max_tcrdist; TCRdist's defaults *)
Theorem C14_source_tcrdist_filter : forall v c maxt,
  gen_tcrdist_sum v c = (v + c)%Z /\ (gen_tcrdist_keep (gen_tcrdist_sum v c) maxt = true <-> (v + c <= maxt)%Z).
Proof. intros. rewrite gen_tcrdist_sum_spec. split; [reflexivity|apply gen_tcrdist_keep_spec]. Qed.
Print Assumptions C14_source_tcrdist_filter.

Theorem C14_source_tcrdist_defaults :
  gen_tcrdist_defaults = (3, 2, 3, 12) /\ gen_tcrdist_call_defaults = (2, 20, true) /\ gen_both_adds = true.
Proof. repeat split. Qed.

Example C14h_ex :
  gen_trim_slice 3 2 [67;65;83;83;76;71;70]%N = [83;76]%N /\ gen_trim_slice 3 0 [67;65;83;83;76]%N = [83;76]%N /\
  gen_trim_slice 3 2 [67;65;83;70]%N = [] /\ gen_flat_index 2 1 4 = 9.
Proof. vm_compute. repeat split. Qed.
