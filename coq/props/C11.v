(* C11 - kdtree results are independent of worker count, chunking and compression. *)
From Coq Require Import List NArith ZArith Bool Arith Lia Permutation.
From PV Require Import lib.Edits lib.LevDP lib.Str lib.Chunk model.Symdel model.Kdtree model.Nbrs model.Engines
                       proofs.SymdelP proofs.KdtreeP proofs.EnginesP proofs.ChunkP gen.Gen_consts.
Import ListNotations.

(* any chunk size >= 1 and any completion order of the chunks give the serial result *)
Theorem C11_any_schedule : forall (X Y : Type) (f : X -> Y) (xs : list X) (c : nat) (sched : list nat),
  1 <= c -> Permutation sched (seq 0 (length (chunks c xs))) -> pool_map f xs c sched = map f xs.
Proof. intros. now apply pool_map_schedule. Qed.
Print Assumptions C11_any_schedule.

Theorem C11_chunks_lossless : forall (X : Type) (c : nat) (xs : list X), 1 <= c -> concat (chunks c xs) = xs.
Proof. intros. now apply chunks_concat. Qed.
Print Assumptions C11_chunks_lossless.

(* chunk size 0 loses every task: the model's reason why the chunk-size expression must be >= 1 *)
Theorem C11_chunk_zero_loses_everything : forall (X Y : Type) (f : X -> Y) (xs : list X) sched, pool_map f xs 0 sched = [].
Proof. intros. apply pool_map_zero. Qed.
Print Assumptions C11_chunk_zero_loses_everything.

(* the chunk-size expression regenerated from nn._to_triplets is >= 1 for every n_cpu >= 1 and every
   non-empty list, including n_cpu > len(seqs) *)
Theorem C11_chunksize_positive : forall len_seqs n_cpu, 1 <= len_seqs -> 1 <= n_cpu -> 1 <= gen_chunksize len_seqs n_cpu.
Proof.
  intros l n Hl Hn. unfold gen_chunksize. lia.
Qed.
Print Assumptions C11_chunksize_positive.

Theorem C11_ncpu_independent : forall (Y : Type) (f : nat -> Y) (len_seqs n_cpu : nat) sched,
  1 <= len_seqs -> 1 <= n_cpu ->
  Permutation sched (seq 0 (length (chunks (gen_chunksize len_seqs n_cpu) (seq 0 len_seqs)))) ->
  pool_map f (seq 0 len_seqs) (gen_chunksize len_seqs n_cpu) sched = map f (seq 0 len_seqs).
Proof. intros. apply pool_map_schedule; auto. now apply C11_chunksize_positive. Qed.
Print Assumptions C11_ncpu_independent.

(* compression: the result set is the same for every compression >= 1 (the pre-filter bound holds for any bin map) *)
Theorem C11_compression_independent : forall k comp comp' seqs t,
  In t (kdtree_model (keep_lev k) (fun d => d) k comp None seqs) <->
  In t (kdtree_model (keep_lev k) (fun d => d) k comp' None seqs).
Proof. intros. apply kdtree_compression. apply keep_lev_within. Qed.
Print Assumptions C11_compression_independent.

Theorem C11_compression_independent_hamming : forall k comp comp' seqs t,
  In t (kdtree_model (keep_ham k) (fun d => d) k comp None seqs) <->
  In t (kdtree_model (keep_ham k) (fun d => d) k comp' None seqs).
Proof. intros. apply kdtree_compression. apply keep_ham_within. Qed.
Print Assumptions C11_compression_independent_hamming.

(* max_returns = m: min(m, #true neighbours) entries, all of them true neighbours with exact distance,
   and no omitted neighbour is strictly closer than a reported one *)
Theorem C11_max_returns : forall (m : nat) (hits : list (nat * nat * nat)), NoDup hits ->
  let r := top_m (fun t => snd t) (Some m) hits in
  length r = Nat.min m (length hits) /\ incl r hits /\ NoDup r /\
  (forall x y, In x r -> In y hits -> ~ In y r -> snd x <= snd y).
Proof.
  intros m hits ND r. destruct (top_m_spec (fun t : nat * nat * nat => snd t) m hits) as (H1 & H2 & H3 & H4).
  repeat split; auto.
Qed.
Print Assumptions C11_max_returns.

Theorem C11_max_returns_true_neighbours : forall k comp limit seqs i j d,
  In (i, j, d) (kdtree_model (keep_lev k) (fun d => d) k comp limit seqs) ->
  i < length seqs /\ j < length seqs /\ i <> j /\ d = slev (sget seqs i) (sget seqs j) /\ d <= k.
Proof.
  intros k comp limit seqs i j d H.
  apply (kdtree_limit_sound (keep_lev k) (fun d => d) k) in H.
  rewrite keep_lev_spec in H. tauto.
Qed.
Print Assumptions C11_max_returns_true_neighbours.

Example C11_ex : pool_map (fun x => x * x) [1;2;3;4;5;6;7] 3 [2;0;1] = [1;4;9;16;25;36;49].
Proof. vm_compute. reflexivity. Qed.
