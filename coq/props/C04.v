(* C04 - hash_based and kdtree return the same exact neighbour set as the default search. *)
From Coq Require Import List NArith ZArith Bool Arith Lia.
From PV Require Import lib.Edits lib.LevDP lib.Str model.Symdel model.Kdtree model.Nbrs model.Engines
                       proofs.SymdelP proofs.KdtreeP proofs.NbrsP proofs.EnginesP.
Import ListNotations.

Definition nn_default (k : nat) (seqs : list str) := symdel_self Nat.eq_dec (keep_lev k) k seqs.
Definition nn_kdtree (k comp : nat) (seqs : list str) := kdtree_model (keep_lev k) (fun d => d) k comp None seqs.
Definition nn_hash (k : nat) (seqs : list str) := hash_model val_lev (lev_nbrs aa_letters) k seqs.

(* the composition pre-filter never rejects a pair within k edits: any letter->bin map, any dimension *)
Theorem C04_prefilter : forall (bin : N -> nat) (dim : nat) (a b : str) (k : nat),
  slev a b <= k -> (sqdist (hist bin dim a) (hist bin dim b) <= 2 * Z.of_nat k * Z.of_nat k)%Z.
Proof. exact prefilter_lev. Qed.
Print Assumptions C04_prefilter.

Theorem C04_kdtree_exact : forall k comp seqs i j d,
  In (i, j, d) (nn_kdtree k comp seqs) <->
  i < length seqs /\ j < length seqs /\ i <> j /\ d = slev (sget seqs i) (sget seqs j) /\ d <= k.
Proof.
  intros. unfold nn_kdtree. rewrite (kdtree_spec (keep_lev k) (fun d => d) k (keep_lev_within k)).
  rewrite keep_lev_spec. tauto.
Qed.
Print Assumptions C04_kdtree_exact.

Theorem C04_hash_exact : forall k seqs i j d, (forall s, In s seqs -> over_aa s) ->
  (In (i, j, d) (nn_hash k seqs) <->
   i < length seqs /\ j < length seqs /\ i <> j /\ d = slev (sget seqs i) (sget seqs j) /\ d <= k).
Proof.
  intros k seqs i j d Hal. unfold nn_hash, hash_model.
  rewrite (lookupdb_spec val_lev (lev_nbrs aa_letters) k (fun a b => slev a b <= k) true seqs seqs i j d).
  - unfold val_lev. rewrite slev_x_spec. split.
    + intros (H1 & H2 & H3 & H4 & [= <-]). auto.
    + intros (H1 & H2 & H3 & -> & H4). repeat split; auto.
  - intros q e He. apply ball_lev. apply Hal. exact He.
Qed.
Print Assumptions C04_hash_exact.

Theorem C04_engines_agree : forall k comp seqs t, (forall s, In s seqs -> over_aa s) ->
  (In t (nn_kdtree k comp seqs) <-> In t (nn_default k seqs)) /\
  (In t (nn_hash k seqs) <-> In t (nn_default k seqs)).
Proof.
  intros k comp seqs [[i j] d] Hal. unfold nn_default.
  rewrite C04_kdtree_exact, (C04_hash_exact k seqs i j d Hal).
  rewrite (symdel_self_spec Nat.eq_dec (keep_lev k) k (keep_lev_within k) (keep_lev_sym k)), keep_lev_spec.
  tauto.
Qed.
Print Assumptions C04_engines_agree.

Theorem C04_hash_each_pair_once : forall k seqs, NoDup (map fst (nn_hash k seqs)).
Proof. intros. apply lookupdb_nodup_pairs. exact (fun _ _ => True). Qed.
Print Assumptions C04_hash_each_pair_once.

Example C04_ex : let s := [[67;65;65;65]; [67;65;65]; [67;65;65;65]; []]%N in
  nn_kdtree 1 1 s = [(0,2,0);(0,1,1);(1,0,1);(1,2,1);(2,0,0);(2,1,1)] /\ length (nn_hash 1 s) = 6.
Proof. split; vm_compute; reflexivity. Qed.
