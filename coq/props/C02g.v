(* C02 - source tie: the counting tails of stats.pc (one-sample and two-sample branch) as written in pyrepseq/stats.py today
   (gen/Gen_c02.v is regenerated from the source text on every run) are the fraction of coinciding pairs. *)
From Coq Require Import List QArith ZArith NArith Bool Arith.
From PV Require Import lib.Val lib.NpUnique gen.Gen_c02 model.Pc proofs.PcP proofs.PcGenP proofs.GenPcP.
Import ListNotations.

(* `uniq` is the order in which np.unique lists the distinct values (sorted, in NumPy): any order will do *)
Theorem C02_source_pc_one : forall (X : Type) (eqd : forall a b : X, {a = b} + {a <> b}) (uniq : list X -> list X),
  uniq_ok uniq -> forall l : list X, (2 <= length l)%nat ->
  gen_pc_one eqd uniq l == qn (length (coinc_pairs eqd l)) / qn (length l * (length l - 1)).
Proof.
  intros X eqd uniq U l L. rewrite (gen_pc_one_counts eqd uniq U l L). rewrite pc_num_counts. reflexivity.
Qed.
Print Assumptions C02_source_pc_one.

Theorem C02_source_pc_two : forall (X : Type) (eqd : forall a b : X, {a = b} + {a <> b}) (uniq : list X -> list X),
  uniq_ok uniq -> forall l1 l2 : list X,
  gen_pc_two eqd uniq l1 l2 == qn (length (cross_pairs eqd l1 l2)) / qn (length l1 * length l2).
Proof.
  intros X eqd uniq U l1 l2. rewrite (gen_pc_two_counts eqd uniq U l1 l2). rewrite pc2_num_counts. reflexivity.
Qed.
Print Assumptions C02_source_pc_two.

(* the two branches agree with pc_n on the multiplicities (the 'same number' clause, on the exact-rational level) *)
Theorem C02_source_pc_one_is_pc_n : forall (X : Type) (eqd : forall a b : X, {a = b} + {a <> b}) (uniq : list X -> list X),
  uniq_ok uniq -> forall l : list X, (2 <= length l)%nat ->
  gen_pc_one eqd uniq l == Gen_stats.gen_pc_n_Q (map qn (mults eqd l)).
Proof.
  intros X eqd uniq U l L. rewrite (gen_pc_one_counts eqd uniq U l L). symmetry. apply gen_pc_n_counts. exact L.
Qed.
Print Assumptions C02_source_pc_one_is_pc_n.

(* non-vacuity: an admissible `uniq`, and the generated functions evaluated on a concrete sample *)
Example C02g_ex : uniq_ok (nodup N.eq_dec) /\
  Qeq_bool (gen_pc_one N.eq_dec (nodup N.eq_dec) [1; 2; 1; 3; 1; 2]%N) (8 # 30) = true /\
  Qeq_bool (gen_pc_two N.eq_dec (nodup N.eq_dec) [1; 1; 2]%N [1; 2; 2; 3]%N) (4 # 12) = true.
Proof. split; [apply nodup_uniq_ok|split; vm_compute; reflexivity]. Qed.
