(* C17 - source tie: stats.subsample and distance.downsample AS WRITTEN (regenerated into gen/Gen_c17b.v from the source text on every
   run) conserve counts and honour their bounds, for EVERY admissible random draw.  Vocabulary trusted (DESIGN section 3): np.repeat,
   np.concatenate, enumerate, np.unique (ascending distinct values with counts), np.random.choice(.., replace=False) / DataFrame.sample
   (the elements at k distinct positions; which ones is the parameter `draw`). *)
From Coq Require Import List Arith Bool Lia Sorting.Sorted Permutation.
From PV Require Import lib.NpUnique lib.NpChoice model.Resample gen.Gen_c17b proofs.ResampleP proofs.GenResampleP.
Import ListNotations.

(* the source of subsample is the model *)
Theorem C17_source_subsample_is_model : forall (uniq : list nat -> list nat) (counts : list nat) (n : nat) (draw : nat -> list nat),
  sorted_uniq_ok uniq -> (forall t, In t (draw n) -> t < list_sum counts) ->
  gen_subsample uniq counts n draw = (map fst (subsample counts (draw n)), map snd (subsample counts (draw n))).
Proof. exact gen_subsample_model. Qed.
Print Assumptions C17_source_subsample_is_model.

(* ... hence, for every draw and every n up to the total: ascending distinct categories, positive counts that sum to n, none above
   the original count of its category, every category a position of `counts` *)
Theorem C17_source_subsample : forall (uniq : list nat -> list nat) (counts : list nat) (n : nat) (draw : nat -> list nat),
  sorted_uniq_ok uniq -> draw_ok (list_sum counts) draw -> n <= list_sum counts ->
  let '(cats, cnts) := gen_subsample uniq counts n draw in
  exists r, cats = map fst r /\ cnts = map snd r /\
    StronglySorted lt cats /\ Forall (fun c => 0 < c) cnts /\ list_sum cnts = n /\
    Forall (fun p => snd p <= nth (fst p) counts 0) r /\ Forall (fun i => i < length counts) cats.
Proof.
  intros uniq counts n draw HU HD Hn.
  destruct (HD n Hn) as [Hnd [Hlen Hlt]].
  rewrite (gen_subsample_model uniq counts n draw HU Hlt).
  destruct (subsample_spec counts (draw n) Hnd Hlt) as [H1 [H2 [H3 [H4 H5]]]].
  exists (subsample counts (draw n)). repeat split; try assumption.
  - rewrite Forall_forall in *. intros c Hc. apply in_map_iff in Hc. destruct Hc as [p [<- Hp]]. apply (H2 p Hp).
  - rewrite H3. exact Hlen.
  - rewrite Forall_forall in *. intros i Hi. apply in_map_iff in Hi. destruct Hi as [p [<- Hp]]. apply (H5 p Hp).
Qed.
Print Assumptions C17_source_subsample.

(* the source of downsample is the model; None stays None *)
Theorem C17_source_downsample_is_model : forall (xs : list nat) (maxseqs : option nat) (is_df : bool) (draw : nat -> list nat),
  gen_downsample 0 (Some xs) maxseqs is_df draw
  = Some (downsample 0 xs maxseqs (draw (match maxseqs with Some m => m | None => 0 end)))
  /\ gen_downsample 0 (@None (list nat)) maxseqs is_df draw = None.
Proof. intros. split; [apply gen_downsample_model|apply gen_downsample_none]. Qed.
Print Assumptions C17_source_downsample_is_model.

(* ... hence: unchanged when maxseqs is None or not below the length; otherwise exactly maxseqs elements forming a sub-multiset -
   for a sequence and for a table alike, whatever the draw *)
Theorem C17_source_downsample : forall (xs : list nat) (maxseqs : option nat) (is_df : bool) (draw : nat -> list nat),
  draw_ok (length xs) draw ->
  exists out, gen_downsample 0 (Some xs) maxseqs is_df draw = Some out /\
    match maxseqs with
    | None => out = xs
    | Some m => if Nat.leb (length xs) m then out = xs
                else length out = m /\ exists rest, Permutation xs (out ++ rest)
    end.
Proof.
  intros xs maxseqs is_df draw HD.
  rewrite gen_downsample_model. eexists; split; [reflexivity|].
  destruct maxseqs as [m|]; [|reflexivity].
  destruct (Nat.leb (length xs) m) eqn:E.
  - unfold downsample. rewrite E. reflexivity.
  - apply Nat.leb_gt in E. destruct (HD m (Nat.lt_le_incl _ _ E)) as [Hnd [Hlen Hlt]].
    exact (downsample_sub 0 xs (Some m) m (draw m) eq_refl E Hnd Hlen Hlt).
Qed.
Print Assumptions C17_source_downsample.

(* non-vacuity: an ascending np.unique and an admissible draw exist, and the regenerated functions compute *)
Definition uniq_asc (l : list nat) : list nat := filter (fun i => existsb (Nat.eqb i) l) (seq 0 (S (list_max l))).
Lemma uniq_asc_ok : sorted_uniq_ok uniq_asc.
Proof.
  intros l. unfold uniq_asc. split; [apply StronglySorted_filter, StronglySorted_seq|].
  intros x. rewrite filter_In, in_seq, existsb_exists. split.
  - intros [_ [y [Hy E]]]. apply Nat.eqb_eq in E. subst y. exact Hy.
  - intros Hx. split; [|exists x; split; [exact Hx|apply Nat.eqb_refl]].
    pose proof (proj1 (list_max_le l (list_max l)) (Nat.le_refl _)) as HF. rewrite Forall_forall in HF. specialize (HF x Hx). lia.
Qed.
Lemma draw_first_ok N : draw_ok N (fun k => seq 0 k).
Proof.
  intros k Hk. split; [apply seq_NoDup|]. split; [apply seq_length|]. intros t Ht. apply in_seq in Ht. lia.
Qed.
Example C17_source_sample :
  gen_subsample uniq_asc [2; 0; 3; 1] 4 (fun _ => [5; 0; 2; 4]) = ([0; 2; 3], [1; 2; 1])
  /\ gen_downsample 0 (Some [7; 8; 9; 7]) (Some 2) false (fun k => seq 1 k) = Some [8; 9]
  /\ gen_downsample 0 (Some [7; 8; 9; 7]) (Some 2) true (fun k => seq 1 k) = Some [8; 9]
  /\ gen_downsample 0 (Some [7; 8]) (Some 2) false (fun k => seq 1 k) = Some [7; 8]
  /\ gen_downsample 0 (Some [7; 8; 9]) None false (fun k => seq 1 k) = Some [7; 8; 9].
Proof. vm_compute. repeat split. Qed.
