(* C02 - coincidence probability pc is the exact fraction of coinciding pairs. *)
From Coq Require Import List QArith NArith ZArith Bool Arith Lia Permutation.
From PV Require Import lib.Val gen.Gen_stats model.Pc proofs.PcP proofs.PcGenP.
Import ListNotations.
Close Scope Q_scope.
Open Scope nat_scope.

Section C02.
Context {X : Type}.
Variable eqd : forall a b : X, {a = b} + {a <> b}.

(* numerator = number of ORDERED pairs of distinct positions holding equal elements; denominator = N(N-1) *)
Theorem C02_pc_counts : forall l : list X,
  pc_num eqd l = length (coinc_pairs eqd l) /\
  pc_den l = length (filter (fun ij => negb (Nat.eqb (fst ij) (snd ij))) (list_prod (seq 0 (length l)) (seq 0 (length l)))).
Proof. intros l. split; [apply pc_num_counts|apply pc_den_counts]. Qed.

Theorem C02_pc_cross_counts : forall l1 l2 : list X,
  pc2_num eqd l1 l2 = length (cross_pairs eqd l1 l2) /\ pc2_den l1 l2 = length l1 * length l2.
Proof. intros. split; [apply pc2_num_counts|reflexivity]. Qed.

Theorem C02_range : forall l l2 : list X, pc_num eqd l <= pc_den l /\ pc2_num eqd l l2 <= pc2_den l l2.
Proof. intros. split; [apply pc_num_le_den|apply pc2_num_le_den]. Qed.

Theorem C02_order_invariant : forall l l' l2 l2' : list X, Permutation l l' -> Permutation l2 l2' ->
  pc_num eqd l = pc_num eqd l' /\ pc_den l = pc_den l' /\ pc2_num eqd l l2 = pc2_num eqd l' l2'.
Proof. intros l l' l2 l2' P P2. destruct (pc_perm eqd l l' P). repeat split; auto. now apply pc2_perm. Qed.

Theorem C02_cross_symmetric : forall l1 l2 : list X, pc2_num eqd l1 l2 = pc2_num eqd l2 l1.
Proof. apply pc2_num_sym. Qed.

(* the pc_n regenerated from stats.py, applied to the multiplicity vector, is the same number *)
Theorem C02_pc_n_agrees : forall l : list X, 2 <= length l ->
  (gen_pc_n_Q (map qn (mults eqd l)) == qn (pc_num eqd l) / qn (pc_den l))%Q /\
  gen_pc_n_defined (map qn (mults eqd l)) = true.
Proof. intros l L. split; [now apply gen_pc_n_counts|now apply gen_pc_n_defined_iff]. Qed.
End C02.
Print Assumptions C02_pc_counts.
Print Assumptions C02_pc_cross_counts.
Print Assumptions C02_range.
Print Assumptions C02_order_invariant.
Print Assumptions C02_cross_symmetric.
Print Assumptions C02_pc_n_agrees.

Theorem C02_relabel_invariant : forall (X Y : Type) (eqdX : forall a b : X, {a = b} + {a <> b})
  (eqdY : forall a b : Y, {a = b} + {a <> b}) (f : X -> Y), (forall a b, f a = f b -> a = b) ->
  forall l l2 : list X, pc_num eqdY (map f l) = pc_num eqdX l /\ pc2_num eqdY (map f l) (map f l2) = pc2_num eqdX l l2.
Proof. intros X Y eqdX eqdY f Hinj l l2. split; [now apply pc_num_relabel|now apply pc2_num_relabel]. Qed.
Print Assumptions C02_relabel_invariant.

(* table rows: joining the cells with a separator that occurs in no cell is injective, so two rows coincide
   exactly when they agree in every column; without the guard it is not *)
Theorem C02_rows_coincide_iff_all_columns : forall (tok : N) (r r' : list (list N)),
  length r = length r' -> (forall c, In c r -> ~ In tok c) -> (forall c, In c r' -> ~ In tok c) ->
  (join tok r = join tok r' <-> r = r').
Proof. intros tok r r' L H H'. split; [now apply join_inj|now intros ->]. Qed.
Print Assumptions C02_rows_coincide_iff_all_columns.

Theorem C02_join_not_injective_without_guard :
  let tok := 46%N in
  let r := [[65%N; 46%N; 66%N]; [67%N]] in
  let r' := [[65%N]; [66%N; 46%N; 67%N]] in
  length r = length r' /\ join tok r = join tok r' /\ r <> r'.
Proof. exact join_not_inj_unguarded. Qed.

Example C02_ex : pc_num N.eq_dec [1;2;1;3;1;2]%N = 8 /\ pc_den [1;2;1;3;1;2]%N = 30 /\ pc2_num N.eq_dec [1;1;2]%N [1;2;2;3]%N = 4.
Proof. repeat split; vm_compute; reflexivity. Qed.
