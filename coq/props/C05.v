(* C05 - pcDelta is the exact histogram of all pairwise distances.
   gen_* are regenerated from pyrepseq/distance.py on every run (coq/gen/Gen_c05.v, Gen_data.v). *)
From Coq Require Import List QArith NArith ZArith Bool Arith Lia Permutation.
From PV Require Import lib.Condensed lib.Edits lib.LevDP lib.Str lib.Val model.Pc model.Resample model.PcDelta.
From PV Require Import gen.Gen_data gen.Gen_c05 proofs.CondensedP proofs.PcP proofs.PcDeltaP.
Import ListNotations.
Close Scope Q_scope.
Open Scope nat_scope.

(* np.histogram contract: one count per bin, bin t = [e_t, e_t+1), last bin closed *)
Theorem C05_hist_counts : forall edges vals,
  length (histogram edges vals) = length edges - 1 /\
  (forall t, t < length edges - 1 -> nth t (histogram edges vals) 0 = length (filter (in_bin edges t) vals)) /\
  (forall t v, in_bin edges t v = true <->
     (nth t edges 0 <= v)%Q /\
     (if S (S t) =? length edges then (v <= nth (S t) edges 0)%Q else (v < nth (S t) edges 0)%Q)).
Proof. intros. split; [apply histogram_length|split; [intros; now apply histogram_nth|apply in_bin_spec]]. Qed.
Print Assumptions C05_hist_counts.

(* the values fed to the histogram: every unordered pair of distinct positions exactly once
   (no diagonal, not both orientations) / every i with every j *)
Theorem C05_pairs_once : forall (X : Type) (metric : X -> X -> nat) (d0 : X) (xs ys : list X),
  Permutation (pdist_vals metric d0 xs) (map (dist_at metric d0 xs xs) (pairs_lt (length xs))) /\
  NoDup (pairs_lt (length xs)) /\
  (forall i j, In (i, j) (pairs_lt (length xs)) <-> i < j /\ j < length xs) /\
  cdist_vals metric xs ys = map (dist_at metric d0 xs ys) (pairs_cross (length xs) (length ys)) /\
  NoDup (pairs_cross (length xs) (length ys)) /\
  (forall i j, In (i, j) (pairs_cross (length xs) (length ys)) <-> i < length xs /\ j < length ys).
Proof.
  intros. split; [apply pdist_vals_pairs|]. split; [apply NoDup_pairs_lt|]. split; [intros; apply in_pairs_lt|].
  split; [apply cdist_vals_pairs|]. split; [apply NoDup_list_prod; apply seq_NoDup|].
  intros i j. unfold pairs_cross. rewrite in_prod_iff, !in_seq. lia.
Qed.
Print Assumptions C05_pairs_once.

(* normalize=False: bin t = number of unordered pairs of distinct positions / of cross pairs whose distance is in bin t *)
Theorem C05_counts : forall (X : Type) (metric : X -> X -> nat) (d0 : X) (edges : list Q) (xs ys : list X) (t : nat),
  t < length edges - 1 ->
  nth t (pcdelta_counts metric d0 edges xs None) 0
    = length (filter (fun ij => in_bin edges t (dist_at metric d0 xs xs ij)) (pairs_lt (length xs))) /\
  nth t (pcdelta_counts metric d0 edges xs (Some ys)) 0
    = length (filter (fun ij => in_bin edges t (dist_at metric d0 xs ys ij)) (pairs_cross (length xs) (length ys))).
Proof. intros. split; [now apply counts_self|now apply counts_cross]. Qed.
Print Assumptions C05_counts.

(* total = number of pairs whose distance lies inside the outer edges; at most N(N-1)/2 resp. N1*N2 *)
Theorem C05_total : forall (X : Type) (metric : X -> X -> nat) (d0 : X) (edges : list Q) (xs : list X) (ys : option (list X)),
  increasing edges ->
  list_sum (pcdelta_counts metric d0 edges xs ys) = length (filter (inside edges) (pcdelta_vals metric d0 xs ys)) /\
  list_sum (pcdelta_counts metric d0 edges xs ys)
    <= match ys with None => length xs * (length xs - 1) / 2 | Some y => length xs * length y end.
Proof. intros. now apply counts_total. Qed.
Print Assumptions C05_total.

(* Levenshtein, edges 0, 1, e2, ...: the zero bin counts the unordered coinciding pairs = sum n_i(n_i-1)/2 *)
Theorem C05_zero_bin : forall (m : str -> str -> nat) (xs : list str) (e2 : Q) (rest : list Q),
  (forall a b, m a b = slev a b) ->
  let h := pcdelta_counts m [] (qn 0 :: qn 1 :: e2 :: rest) xs None in
  nth 0 h 0 = length (equal_pairs xs) /\
  2 * nth 0 h 0 = list_sum (map (fun c => c * (c - 1)) (mults str_eq_dec xs)).
Proof. intros m xs e2 rest H. exact (zero_bin_pc m xs e2 rest H). Qed.
Print Assumptions C05_zero_bin.

(* ... and when the edges cover every distance the normalised zero bin is pc itself *)
Theorem C05_zero_bin_is_pc : forall (m : str -> str -> nat) (xs : list str) (e2 : Q) (rest : list Q),
  (forall a b, m a b = slev a b) -> 2 <= length xs ->
  let edges := qn 0 :: qn 1 :: e2 :: rest in
  increasing edges -> forallb (inside edges) (pdist_vals m [] xs) = true ->
  let h := pcdelta_counts m [] edges xs None in
  (qn (nth 0%nat h 0%nat) / qn (total h) == qn (pc_num str_eq_dec xs) / qn (pc_den xs))%Q.
Proof. exact zero_bin_normalised_is_pc. Qed.
Print Assumptions C05_zero_bin_is_pc.

(* bins = 0: pc of the same arguments, whatever metric / normalize / pseudocount / maxseqs *)
Theorem C05_bins0 : forall (X : Type) (eqd : forall a b : X, {a = b} + {a <> b}) (metric : X -> X -> nat) (d0 : X)
  (xs ys : list X) norm c maxseqs S1 S2,
  gen_pcdelta_bins0_pc_args = [0; 1] /\
  pcdelta eqd metric d0 xs None BinsZero norm c maxseqs S1 S2
    = OutPc (length (coinc_pairs eqd xs)) (length xs * (length xs - 1)) /\
  pcdelta eqd metric d0 xs (Some ys) BinsZero norm c maxseqs S1 S2
    = OutPc (length (cross_pairs eqd xs ys)) (length xs * length ys).
Proof.
  intros. split; [reflexivity|]. cbn [pcdelta]. rewrite pc_num_counts, pc2_num_counts. split; reflexivity.
Qed.
Print Assumptions C05_bins0.

(* the tail of pcDelta as it stands in distance.py today *)
Theorem C05_raw : forall c (h : list nat), gen_pcdelta_tail false c (map qn h) = map Some (map qn h).
Proof. intros c h. exact (tail_raw c (map qn h)). Qed.
Print Assumptions C05_raw.

Theorem C05_norm : forall (c : Q) (h : list nat), (c == 0)%Q ->
  (0 < total h -> Forall2 oq_eq (gen_pcdelta_tail true c (map qn h)) (map Some (normalize h))
                  /\ (sumQ (normalize h) == 1)%Q /\ (forall x, In x (normalize h) -> (0 <= x <= 1)%Q)) /\
  (total h = 0 -> Forall (fun o => o = None) (gen_pcdelta_tail true c (map qn h))).
Proof.
  intros c h Hc. split.
  - intros Ht. split; [now apply tail_norm|]. split; [now apply normalize_sums_to_one|].
    intros x Hx. exact (normalize_range h x Ht Hx).
  - intros Ht. now apply tail_norm_nan.
Qed.
Print Assumptions C05_norm.

Theorem C05_pseudo : forall (c : Q) (h : list nat), (0 < c)%Q ->
  Forall2 oq_eq (gen_pcdelta_tail true c (map qn h)) (map Some (pseudo c h)) /\
  (forall t, t < length h -> (nth t (pseudo c h) 0 == (qn (nth t h 0%nat) + c) / (qn (total h) + 2 * c))%Q) /\
  (sumQ (pseudo c h) == (qn (total h) + qn (length h) * c) / (qn (total h) + 2 * c))%Q.
Proof.
  intros c h Hc. split; [now apply tail_pseudo|]. split; [|now apply pseudo_sum].
  intros t Ht. unfold pseudo.
  set (F := fun x : nat => ((qn x + c) / (qn (total h) + 2 * c))%Q).
  rewrite (nth_indep _ 0%Q (F 0%nat)) by now rewrite map_length.
  rewrite (map_nth F). reflexivity.
Qed.
Print Assumptions C05_pseudo.

(* maxseqs: no replacement; unchanged when N <= maxseqs or maxseqs is None; otherwise for EVERY admissible draw S the
   metric is fed a sub-multiset of exactly maxseqs elements, so the counts total at most m(m-1)/2, with equality
   when the edges cover all distances *)
Theorem C05_maxseqs : forall (X : Type) (metric : X -> X -> nat) (d0 : X) (edges : list Q) (xs : list X) (m : nat) (S : list nat),
  increasing edges ->
  gen_downsample_replace = false /\ gen_pcdelta_downsampled = [0; 1] /\
  pcd_downsample d0 xs None S = xs /\
  (length xs <= m -> pcd_downsample d0 xs (Some m) S = xs) /\
  (m < length xs -> NoDup S -> length S = m -> (forall t, In t S -> t < length xs) ->
   let r := pcd_downsample d0 xs (Some m) S in
   length r = m /\ (exists rest, Permutation xs (r ++ rest)) /\
   list_sum (pcdelta_counts metric d0 edges r None) <= m * (m - 1) / 2 /\
   (forallb (inside edges) (pdist_vals metric d0 r) = true ->
    list_sum (pcdelta_counts metric d0 edges r None) = m * (m - 1) / 2)).
Proof.
  intros X metric d0 edges xs m S Hinc. split; [reflexivity|]. split; [reflexivity|]. split; [reflexivity|]. split.
  - intros H. apply maxseqs_id. right. exists m. now split.
  - intros. now apply maxseqs_counts.
Qed.
Print Assumptions C05_maxseqs.

(* the whole function (bins <> 0, no maxseqs) = the regenerated tail applied to the proved counts *)
Theorem C05_pcdelta : forall (X : Type) (eqd : forall a b : X, {a = b} + {a <> b}) (metric : X -> X -> nat) (d0 : X)
  (xs : list X) (ys : option (list X)) (bins : bins_arg) (c : Q) (S1 S2 : list nat),
  bins <> BinsZero ->
  let h := pcdelta_counts metric d0 (edges_of bins) xs ys in
  pcdelta eqd metric d0 xs ys bins false c None S1 S2 = OutVec (map Some (map qn h)) /\
  (exists v, pcdelta eqd metric d0 xs ys bins true c None S1 S2 = OutVec v /\
     (0 < total h -> (c == 0)%Q -> Forall2 oq_eq v (map Some (normalize h))) /\
     (total h = 0 -> (c == 0)%Q -> Forall (fun o => o = None) v) /\
     ((0 < c)%Q -> Forall2 oq_eq v (map Some (pseudo c h)))).
Proof. intros. now apply pcdelta_assembled. Qed.
Print Assumptions C05_pcdelta.

(* only the multiset of elements matters (symmetric metric for one collection; any metric for two), so the order in
   which a sampler returns the sub-sample is irrelevant *)
Theorem C05_order_invariant : forall (X : Type) (metric : X -> X -> nat) (d0 : X) (edges : list Q) (xs xs' ys ys' : list X),
  Permutation xs xs' -> Permutation ys ys' ->
  ((forall a b, metric a b = metric b a) ->
   pcdelta_counts metric d0 edges xs None = pcdelta_counts metric d0 edges xs' None) /\
  pcdelta_counts metric d0 edges xs (Some ys) = pcdelta_counts metric d0 edges xs' (Some ys').
Proof. intros. now apply counts_perm. Qed.
Print Assumptions C05_order_invariant.

(* load_pcDelta_background: the edges are 0, 1, ..., rows (one more than the table has rows) and are the default
   bins of pcDelta; hence the output has one entry per table row, entry t counting exactly the pairs at distance
   index[t] = t (the last one also distance rows, NumPy's closed last bin) *)
Theorem C05_background_bins :
  let rows := length pcdelta_background_index in
  background_bins = map Z.of_nat (seq 0 (rows + 1)) /\
  pcdelta_background_index = map Z.of_nat (seq 0 rows) /\
  map inject_Z background_bins = default_edges /\
  increasing (map inject_Z background_bins) /\
  (forall vals, length (histogram (map inject_Z background_bins) vals) = rows) /\
  (forall t d, t < rows ->
     in_bin (map inject_Z background_bins) t (qn d) = if S t =? rows then (d =? t) || (d =? S t) else (d =? t)).
Proof.
  intros rows. destruct background_bins_consecutive as [H1 [H2 H3]].
  split; [exact H1|]. split; [vm_compute; reflexivity|]. split; [exact H3|]. rewrite H2. split; [apply increasing_unit_edges|]. split.
  - intros vals. rewrite histogram_length, map_length, seq_length. fold rows. lia.
  - intros t d Ht. now apply in_bin_unit_edges.
Qed.
Print Assumptions C05_background_bins.

(* default metric by the columns present; defaults of pcDelta; what is fed to np.histogram *)
Theorem C05_defaults :
  (forall a b, gen_default_metric false a b = 0) /\
  gen_default_metric true true true = 3 /\ gen_default_metric true true false = 1 /\
  gen_default_metric true false true = 2 /\ gen_default_metric true false false = 0 /\
  gen_pcdelta_default_normalize = true /\ (gen_pcdelta_default_pseudocount == 0)%Q /\
  default_edges = map qn (seq 0 25) /\
  gen_pcdelta_self_source = ([99;97;108;99;95;112;100;105;115;116;95;118;101;99;116;111;114]%N, [0]) /\
  gen_pcdelta_cross_source = ([99;97;108;99;95;99;100;105;115;116;95;109;97;116;114;105;120]%N, [0; 1]).
Proof.
  split; [intros [|] [|]; reflexivity|]. repeat split; reflexivity.
Qed.
Print Assumptions C05_defaults.

(* the executable metrics of the oracle are the specification distances *)
Theorem C05_oracle_metric : forall a b x y : str,
  row_metric 0 1 1 1 (a, x) (b, y) = slev a b /\ row_metric 2 1 1 1 (x, a) (y, b) = slev a b /\
  row_metric 3 1 1 1 (a, x) (b, y) = slev a b + slev x y /\
  forall wi wd ws, row_metric 0 wi wd ws (a, x) (b, y) = wlev N.eq_dec wi wd ws a b.
Proof. intros. unfold row_metric, slev, lev. cbn [fst snd]. rewrite !wlev_dp_spec. repeat split. intros. apply wlev_dp_spec. Qed.
Print Assumptions C05_oracle_metric.

(* non-vacuity: hypotheses are satisfiable and the model computes something non-trivial *)
Example C05_ex_counts :
  let xs := [[65;65;65]; [65;65;66]; [65;65;65]; [65;66;67]]%N in
  let edges := [qn 0; qn 1; qn 2; qn 3] in
  increasing edges /\
  pcdelta_counts slev_x [] edges xs None = [1; 2; 3] /\
  length (equal_pairs xs) = 1 /\ pc_num str_eq_dec xs = 2 /\ pc_den xs = 12 /\
  forallb (inside edges) (pdist_vals slev_x [] xs) = true /\
  pcdelta_counts slev_x [] [(1#2)%Q; (3#2)%Q; 2%Q] xs None = [2; 3] /\
  pcdelta_counts slev_x [] edges xs (Some (firstn 2 xs)) = [3; 3; 2].
Proof. cbv zeta. repeat split; try (vm_compute; reflexivity); cbn; reflexivity. Qed.

Example C05_ex_tail :
  gen_pcdelta_tail true 0 (map qn [1; 2; 3]) = [Some (1 / 6)%Q; Some (2 / 6)%Q; Some (3 / 6)%Q] /\
  map (option_map Qred) (gen_pcdelta_tail true (1#2) (map qn [1; 2; 3])) = [Some (3#14)%Q; Some (5#14)%Q; Some (1#2)%Q] /\
  gen_pcdelta_tail true 0 (map qn [0; 0]) = [None; None] /\ (0 < total [1; 2; 3]) /\ (0 < 1#2)%Q.
Proof. repeat split; try (vm_compute; reflexivity); vm_compute; lia. Qed.

Example C05_ex_maxseqs :
  let xs := [[65]; [66]; [65;66]; [67]]%N in
  let S := [3; 0] in
  NoDup S /\ length S = 2 /\ (forall t, In t S -> t < length xs) /\
  pcd_downsample [] xs (Some 2) S = [[67]; [65]]%N /\
  pcdelta_counts slev_x [] [qn 0; qn 1; qn 2] (pcd_downsample [] xs (Some 2) S) None = [0; 1].
Proof.
  cbv zeta. split; [repeat constructor; cbn; intuition discriminate|]. split; [reflexivity|].
  split; [cbn; intros t [<-|[<-|[]]]; lia|]. split; vm_compute; reflexivity.
Qed.
