(* C01 (also C03, C07, C14) - source tie of the deletion-variant generator: gen_comb_gen is nn._comb_gen translated
   from today's source text (coq/gen/Gen_c01.v, rewritten on every run); it yields exactly the variants of the
   model comb_gen that the symmetric-delete theorems are about. A Python set stands as the list of its insertions. *)
From Coq Require Import List NArith Bool Arith.
From PV Require Import lib.Edits lib.Str lib.Combinations model.Symdel gen.Gen_c01 proofs.GenCombP.
Import ListNotations.

Theorem C01_source_comb_gen : forall k s c, In c (gen_comb_gen s k) <-> In c (comb_gen k s).
Proof. exact gen_comb_gen_model. Qed.
Print Assumptions C01_source_comb_gen.

Theorem C01_source_variants : forall k s c, In c (gen_comb_gen s k) <-> exists n, n <= k /\ del n s c.
Proof. exact gen_comb_gen_variants. Qed.
Print Assumptions C01_source_variants.

(* the generated function computes: "CAAT" with two deletions, "AB" with more deletions than letters, k = 0 *)
Definition same_set (a b : list str) : bool :=
  forallb (fun c => memb str_eq_dec c b) a && forallb (fun c => memb str_eq_dec c a) b.

Example C01_source_example_CAAT :
  same_set (gen_comb_gen [67; 65; 65; 84]%N 2)
           [[67; 65; 65; 84]; [65; 65; 84]; [67; 65; 84]; [67; 65; 65]; [65; 84]; [65; 65]; [67; 84]; [67; 65]]%N = true
  /\ length (nodups (gen_comb_gen [67; 65; 65; 84]%N 2)) = 8
  /\ length (gen_comb_gen [67; 65; 65; 84]%N 2) = 11.
Proof. vm_compute. repeat split. Qed.

Example C01_source_example_k_above_length :
  same_set (gen_comb_gen [65; 66]%N 5) [[65; 66]; [66]; [65]; []]%N = true
  /\ gen_comb_gen [65; 66]%N 0 = [[65; 66]%N]
  /\ gen_comb_gen [] 3 = [[]].
Proof. vm_compute. repeat split. Qed.

(* the order of itertools.combinations and the slices the loop takes *)
Example C01_source_example_combinations :
  combinations (py_range 0 4) 2 = [[0; 1]; [0; 2]; [0; 3]; [1; 2]; [1; 3]; [2; 3]]
  /\ slice [67; 65; 65; 84]%N 1 3 = [65; 65]%N.
Proof. vm_compute. split; reflexivity. Qed.
