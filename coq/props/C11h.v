(* C11 / C14 - source tie: the kdtree worker for custom distances, nn._cal_custom_dist, AS WRITTEN (gen/Gen_c11b.v is regenerated from the source
   text on every run; the roles of the five slots of _cal_params are read from _to_triplets).  Vocabulary trusted (DESIGN section 3): sorted(..,
   key=) as a stable ascending sort (lib/PySorted.v), filter, list slicing; the custom distance, its order `leD` (any total preorder) and the
   edit distance are parameters. *)
From Coq Require Import List Arith Bool Lia Permutation Sorting.Sorted QArith.
From PV Require Import lib.Str lib.PySorted gen.Gen_c11b proofs.GenKdRowP.
Import ListNotations.
Close Scope Q_scope.

(* one query without max_returns: exactly the candidates other than the query itself that lie inside BOTH radii, each once per occurrence in
   the candidate list, with the custom distance as value *)
Theorem C11_source_custom_row : forall (D : Type) (leD : D -> D -> bool) (dist : str -> str -> D) (lev : str -> str -> nat)
  (seqs : list str) (k : nat) (maxc : D) (i : nat) (cands : list nat) (t : nat * nat * D),
  In t (gen_cal_custom_dist leD dist lev seqs k None maxc i cands) <->
  exists j, t = (i, j, dist (nth i seqs []) (nth j seqs [])) /\ In j cands /\ j <> i /\
            leD (dist (nth i seqs []) (nth j seqs [])) maxc = true /\ lev (nth i seqs []) (nth j seqs []) <= k.
Proof.
  intros. rewrite gen_cal_custom_dist_spec. unfold in_radii. split.
  - intros (j & -> & H1 & H2 & _ & H3 & H4). exists j. cbn [snd] in *. tauto.
  - intros (j & -> & H1 & H2 & H3 & H4). exists j. cbn [snd]. tauto.
Qed.
Print Assumptions C11_source_custom_row.

(* max_returns = m: the first m entries of the ascending list - min(m, number of true neighbours) of them, every one a true neighbour with its
   exact custom distance, and no omitted neighbour is closer than a reported one *)
Theorem C11_source_max_returns : forall (D : Type) (leD : D -> D -> bool) (dist : str -> str -> D) (lev : str -> str -> nat),
  (forall a b, leD a b = true \/ leD b a = true) -> (forall a b c, leD a b = true -> leD b c = true -> leD a c = true) ->
  forall (seqs : list str) (k : nat) (maxc : D) (i : nat) (cands : list nat) (m : nat),
  let all := gen_cal_custom_dist leD dist lev seqs k None maxc i cands in
  let out := gen_cal_custom_dist leD dist lev seqs k (Some m) maxc i cands in
  out = firstn m all /\ length out = Nat.min m (length all) /\ (forall t, In t out -> In t all) /\
  (forall a b, In a out -> In b (skipn m all) -> leD (snd a) (snd b) = true) /\
  StronglySorted (fun a b : nat * nat * D => leD (snd a) (snd b) = true) all.
Proof.
  intros D leD dist lev Ht Htr seqs k maxc i cands m all out.
  destruct (gen_cal_custom_dist_limit leD dist lev Ht Htr seqs k maxc i cands m) as (H1 & H2 & H3 & H4).
  repeat split; try assumption. apply gen_cal_custom_dist_sorted; assumption.
Qed.
Print Assumptions C11_source_max_returns.

(* default and Hamming mode (_cal_levenshtein, with rapidfuzz's extract as the vocabulary rf_extract of lib/PySorted.v): exactly the candidates
   other than the query whose Levenshtein / Hamming distance is at most max_edits, ascending; with max_returns = m the first m of them *)
Theorem C11_source_lev_row : forall (hamming levenshtein : str -> str -> nat) (seqs : list str) (k : nat) (is_hamming : bool) (i : nat)
  (cands : list nat) (t : nat * nat * nat),
  let scorer := if is_hamming then hamming else levenshtein in
  In t (gen_cal_levenshtein hamming levenshtein seqs k None is_hamming i cands) <->
  exists j, t = (i, j, scorer (nth i seqs []) (nth j seqs [])) /\ In j cands /\ j <> i /\ scorer (nth i seqs []) (nth j seqs []) <= k.
Proof. intros. apply gen_cal_levenshtein_spec. Qed.
Print Assumptions C11_source_lev_row.

Theorem C11_source_lev_max_returns : forall (hamming levenshtein : str -> str -> nat) (seqs : list str) (k : nat) (is_hamming : bool) (i : nat)
  (cands : list nat) (m : nat),
  let all := gen_cal_levenshtein hamming levenshtein seqs k None is_hamming i cands in
  gen_cal_levenshtein hamming levenshtein seqs k (Some m) is_hamming i cands = firstn m all /\
  StronglySorted (fun a b : nat * nat * nat => snd a <= snd b) all.
Proof. intros. apply gen_cal_levenshtein_limit. Qed.
Print Assumptions C11_source_lev_max_returns.

(* _to_triplets hands a query to the custom-distance worker exactly when custom_distance is a callable (None and 'hamming' go to the rapidfuzz worker) *)
Theorem C11_source_worker_choice : gen_worker_is_custom = (false, false, true).
Proof. reflexivity. Qed.

(* non-vacuity: rational distances with Qle_bool are such an order, and the regenerated worker computes *)
Lemma Qle_bool_total a b : Qle_bool a b = true \/ Qle_bool b a = true.
Proof. rewrite !Qle_bool_iff. destruct (Qlt_le_dec b a) as [H|H]; [right; apply Qlt_le_weak, H|left; exact H]. Qed.
Lemma Qle_bool_trans a b c : Qle_bool a b = true -> Qle_bool b c = true -> Qle_bool a c = true.
Proof. rewrite !Qle_bool_iff. apply Qle_trans. Qed.

Example C11h_ex :
  let lev := fun a b : str => Nat.max (length a) (length b) - Nat.min (length a) (length b) in
  let dist := fun a b : str => (Z.of_nat (lev a b) # 2)%Q in
  let seqs := [[67]; [67;65]; [67;65;65]; [67;65;65;65]; [67]]%N in
  gen_cal_custom_dist Qle_bool dist lev seqs 2 None (1 # 1)%Q 1 [4; 3; 2; 1; 0] = [(1, 4, (1 # 2)%Q); (1, 2, (1 # 2)%Q); (1, 0, (1 # 2)%Q); (1, 3, (2 # 2)%Q)]
  /\ gen_cal_custom_dist Qle_bool dist lev seqs 2 (Some 2) (1 # 1)%Q 1 [4; 3; 2; 1; 0] = [(1, 4, (1 # 2)%Q); (1, 2, (1 # 2)%Q)].
Proof. vm_compute. split; reflexivity. Qed.

Example C11h_ex_lev :
  let lev := fun a b : str => Nat.max (length a) (length b) - Nat.min (length a) (length b) in
  let seqs := [[67]; [67;65]; [67;65;65]; [67;65;65;65]; [67]]%N in
  gen_cal_levenshtein lev lev seqs 1 None false 1 [4; 3; 2; 1; 0] = [(1, 4, 1); (1, 2, 1); (1, 0, 1)]
  /\ gen_cal_levenshtein lev lev seqs 2 (Some 2) false 1 [4; 3; 2; 1; 0] = [(1, 4, 1); (1, 2, 1)].
Proof. vm_compute. split; reflexivity. Qed.
