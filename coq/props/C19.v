(* C19 - summaries and plots encode the data faithfully. *)
From Coq Require Import List NArith ZArith QArith Bool Arith Lia Permutation Sorting.Sorted.
From PV Require Import lib.Edits lib.LevDP lib.Str lib.Condensed model.Summaries proofs.SummariesP.
Import ListNotations.
Close Scope Q_scope.
Open Scope nat_scope.

(* ---------------------------------------------------------------- seqs_to_regex(align=False) *)
(* every input sequence (of a common length, possibly pre-aligned with '.'/'-'), with its gaps removed, is fully matched *)
Theorem C19_regex_inputs : forall (seqs : list str) (L : nat) (s : str),
  Forall (fun s => length s = L) seqs -> In s seqs -> rmatch (regex_of seqs) (strip_gaps s).
Proof. exact regex_inputs. Qed.
Print Assumptions C19_regex_inputs.

(* gap-free input: the expression accepts exactly the strings of the common length whose p-th letter is observed at position p *)
Theorem C19_regex_exact : forall (seqs : list str) (L : nat) (t : str),
  Forall (fun s => length s = L) seqs -> seqs <> [] -> gapless seqs ->
  (rmatch (regex_of seqs) t <->
   length t = L /\ forall p c, nth_error t p = Some c -> exists s, In s seqs /\ nth_error s p = Some c).
Proof. exact regex_exact. Qed.
Print Assumptions C19_regex_exact.

(* pre-aligned input: accepted = one choice per column, an observed residue or (only where some input has a gap) nothing *)
Theorem C19_regex_language : forall (seqs : list str) (L : nat) (t : str),
  Forall (fun s => length s = L) seqs -> seqs <> [] ->
  (rmatch (regex_of seqs) t <-> exists ch, Forall2 (choice_ok seqs) (seq 0 L) ch /\ t = flat_map opt_list ch).
Proof. exact regex_language. Qed.
Print Assumptions C19_regex_language.

(* the matcher the oracle runs decides the full-match relation; the character classes are strictly increasing (np.unique order) *)
Theorem C19_regex_decides : forall (r : list item) (t : str), matchesb r t = true <-> rmatch r t.
Proof. exact matchesb_spec. Qed.
Print Assumptions C19_regex_decides.
Theorem C19_regex_classes : forall seqs p c,
  (In c (fst (item_at seqs p)) <-> residue c = true /\ exists s, In s seqs /\ nth_error s p = Some c) /\
  StronglySorted N.lt (fst (item_at seqs p)).
Proof.
  intros seqs p c. split; [|apply observed_sorted]. unfold item_at. simpl. rewrite observed_spec, column_In. tauto.
Qed.
Print Assumptions C19_regex_classes.

(* ---------------------------------------------------------------- seqs_to_consensus(align=False) *)
(* one letter per kept column (all columns for gap-free input), each occurring there and at least as frequent as any other residue *)
Theorem C19_consensus_mode : forall seqs : list str, seqs <> [] ->
  map fst (consensus_cols seqs) = kept_positions seqs /\
  Forall2 (fun p c => residue c = true /\ 0 < cnt seqs p c /\ forall d, residue d = true -> cnt seqs p d <= cnt seqs p c)
          (kept_positions seqs) (consensus seqs).
Proof. exact consensus_mode. Qed.
Print Assumptions C19_consensus_mode.
Theorem C19_consensus_all_columns : forall (seqs : list str) (L : nat),
  Forall (fun s => length s = L) seqs -> seqs <> [] -> gapless seqs -> kept_positions seqs = seq 0 L.
Proof. exact kept_gapless. Qed.
Print Assumptions C19_consensus_all_columns.
(* the executable predicate evaluated on the implementation's own output is that specification, and the model meets it *)
Theorem C19_consensus_check : forall (seqs : list str) (out : str),
  (consensus_ok seqs out = true <-> Forall2 (mode_at seqs) (kept_positions seqs) out) /\
  (seqs <> [] -> consensus_ok seqs (consensus seqs) = true).
Proof. intros. split; [apply consensus_ok_spec|apply consensus_ok_model]. Qed.
Print Assumptions C19_consensus_check.

(* ---------------------------------------------------------------- seqlogos count matrix *)
(* entry (position p, j-th residue) = number of input sequences showing that residue at p; the residue axis is the sorted
   list of distinct non-gap characters; a row sums to the number of sequences without a gap at p *)
Theorem C19_counts : forall (seqs : list str) (p j : nat),
  p < width seqs -> j < length (alphabet seqs) ->
  nth j (nth p (count_matrix seqs) []) 0 = length (filter (shows p (nth j (alphabet seqs) 0%N)) seqs) /\
  length (count_matrix seqs) = width seqs /\
  StronglySorted N.lt (alphabet seqs) /\
  (forall c, In c (alphabet seqs) <-> residue c = true /\ exists s, In s seqs /\ In c s) /\
  row_total seqs p = length (filter residue (column seqs p)).
Proof.
  intros seqs p j Hp Hj. rewrite count_matrix_entry by auto. rewrite cnt_spec.
  split; [reflexivity|]. split; [apply count_matrix_length|]. split; [apply alphabet_sorted|].
  split; [intros c; apply alphabet_spec|apply row_total_spec].
Qed.
Print Assumptions C19_counts.

(* ---------------------------------------------------------------- rankfrequency *)
Open Scope Q_scope.
(* xs: the non-missing values (divided by their sum when normalize_x) in descending order, times scalex;
   ys: 0, 1, ..., m-1 times scaley (divided by m when normalize_y) *)
Theorem C19_rank : forall (normx normy : bool) (sx sy : Q) (data : list (option Q)) (xs ys : list Q),
  rank_xy normx normy sx sy data = Some (xs, ys) ->
  exists base ds,
    normalised normx (nonmissing data) = Some base /\
    Permutation ds base /\ StronglySorted (fun a b => b <= a) ds /\
    xs = map (fun v => v * sx) ds /\
    ys = map (fun r => sy * qnat r / norm_of normy (length ds)) (seq 0 (length ds)) /\
    length ds = length (nonmissing data).
Proof. exact rank_spec. Qed.
Print Assumptions C19_rank.
Theorem C19_rank_frequencies : forall (normx : bool) (l base : list Q), normalised normx l = Some base ->
  if normx then base = map (fun v => v / qsum l) l /\ (l <> [] -> ~ qsum l == 0 /\ qsum base == 1) else base = l.
Proof. exact normalised_spec. Qed.
Print Assumptions C19_rank_frequencies.
Theorem C19_rank_defined : forall normx normy sx sy data,
  rank_xy normx normy sx sy data = None <-> normx = true /\ nonmissing data <> [] /\ qsum (nonmissing data) == 0.
Proof.
  intros. unfold rank_xy, rank_x. rewrite <- normalised_none.
  destruct (normalised normx (nonmissing data)); simpl; split; congruence.
Qed.
Print Assumptions C19_rank_defined.
Close Scope Q_scope.

(* ---------------------------------------------------------------- labels_to_colors_hls / _tableau *)
(* for EVERY shuffle `order` of the frequent labels and every palette: equal labels equal colours; rarer than min_count black;
   frequent labels take slots below their number, so an injective palette (hls) separates distinct labels, and none is black *)
Theorem C19_colours : forall (C : Type) (pal : nat -> C) (black : C) (mc : option nat) (labels order : list N),
  Permutation order (frequent mc labels) ->
  (forall i j, nth_error labels i = nth_error labels j ->
     nth_error (colours pal black order labels) i = nth_error (colours pal black order labels) j) /\
  (forall i c, nth_error labels i = Some c -> nth_error (colours pal black order labels) i = Some (colour_of pal black order c)) /\
  (forall m c, mc = Some m -> lcount labels c < m -> colour_of pal black order c = black) /\
  (forall c, In c (frequent mc labels) -> exists i, i < length (frequent mc labels) /\ colour_of pal black order c = pal i) /\
  ((forall i j, i < length (frequent mc labels) -> j < length (frequent mc labels) -> pal i = pal j -> i = j) ->
   forall c d, In c (frequent mc labels) -> In d (frequent mc labels) -> c <> d ->
     colour_of pal black order c <> colour_of pal black order d) /\
  ((forall i, pal i <> black) -> forall c, In c (frequent mc labels) -> colour_of pal black order c <> black).
Proof.
  intros C pal black mc labels order P.
  split; [|split; [|split; [|split; [|split]]]].
  - apply colours_equal.
  - apply colours_nth.
  - intros m c. now apply colour_rare.
  - intros c Hc. destruct (colour_frequent pal black mc labels order P c Hc) as (i & Hi & _ & E). eauto.
  - intros Hinj c d. now apply colours_distinct.
  - intros Hb c. now apply colour_frequent_not_black with (mc := mc) (labels := labels).
Qed.
Print Assumptions C19_colours.
Theorem C19_colours_frequent : forall mc labels c,
  (In c (frequent mc labels) <-> In c labels /\ match mc with None => True | Some m => m <= lcount labels c end) /\
  (forall order, valid_order mc labels order = true -> Permutation order (frequent mc labels)).
Proof. intros. split; [apply frequent_spec|apply valid_order_perm]. Qed.
Print Assumptions C19_colours_frequent.

(* ---------------------------------------------------------------- density_scatter(discrete=True) *)
(* each distinct (x, y) once, with its multiplicity; lexicographic (np.unique) order, or ascending multiplicity when sort=True *)
Theorem C19_discrete : forall xs ys : list Z,
  NoDup (map fst (discrete_points xs ys)) /\
  (forall p c, In (p, c) (discrete_points xs ys) <-> In p (combine xs ys) /\ c = count_occ zpair_eq_dec (combine xs ys) p) /\
  (forall p c, In (p, c) (discrete_points xs ys) -> 0 < c) /\
  Sorted (fun a b => lex_leb a b = true) (map fst (discrete_points xs ys)) /\
  Permutation (discrete_sorted xs ys) (discrete_points xs ys) /\
  Sorted (fun a b => snd a <= snd b) (discrete_sorted xs ys).
Proof.
  intros. split; [|split; [|split; [|split; [|split]]]].
  - apply discrete_NoDup.
  - apply discrete_In.
  - apply discrete_count_pos.
  - apply discrete_lex_sorted.
  - apply discrete_sorted_perm.
  - apply discrete_sorted_asc.
Qed.
Print Assumptions C19_discrete.

(* ---------------------------------------------------------------- similarity_clustermap *)
(* heat map in dendrogram order `order`: alpha-chain distance below, beta-chain distance above the diagonal *)
Theorem C19_split : forall (alpha beta : list str) (order : list nat) (i j : nat),
  length alpha = length beta -> Forall (fun k => k < length alpha) order ->
  i < length order -> j < length order ->
  mget (clustermap_matrix alpha beta order) i j =
    if Nat.ltb j i then slev (nth (nth i order 0) alpha []) (nth (nth j order 0) alpha [])
    else if Nat.ltb i j then slev (nth (nth i order 0) beta []) (nth (nth j order 0) beta [])
    else 0.
Proof. exact clustermap_split. Qed.
Print Assumptions C19_split.
(* general form: tril(lower.iloc[order, order]) + triu(upper.iloc[order, order]) entry by entry *)
Theorem C19_split_entries : forall (Lo Up : list (list nat)) (order : list nat) (i j : nat),
  i < length order -> j < length order ->
  mget (split_matrix Lo Up order) i j =
  (if Nat.leb j i then mget Lo (nth i order 0) (nth j order 0) else 0) +
  (if Nat.leb i j then mget Up (nth i order 0) (nth j order 0) else 0).
Proof. exact split_matrix_entry. Qed.
Print Assumptions C19_split_entries.
(* the vector handed to the hierarchical clustering: condensed layout, entry (i<j) = alpha distance + beta distance *)
Theorem C19_summed : forall (alpha beta : list str) (i j : nat),
  length alpha = length beta -> i < j -> j < length alpha ->
  length (summed_distances alpha beta) = length alpha * (length alpha - 1) / 2 /\
  nth (cidx (length alpha) i j) (summed_distances alpha beta) 0 =
    slev (nth i alpha []) (nth j alpha []) + slev (nth i beta []) (nth j beta []).
Proof. exact summed_distances_spec. Qed.
Print Assumptions C19_summed.

(* ---------------------------------------------------------------- non-vacuity / the model computes *)
(* 'A'=65 'B'=66 'C'=67 'D'=68 '-'=45 '.'=46 *)
Definition ex_seqs : list str := [[65;67;45]; [65;46;68]; [66;67;68]]%N.     (* AC-  A.D  BCD *)
Example C19_ex_regex :
  Forall (fun s => length s = 3) ex_seqs /\ ex_seqs <> [] /\
  render (regex_of ex_seqs) = [91;65;66;93;67;63;68;63]%N /\                    (* [AB]C?D? *)
  map (matchesb (regex_of ex_seqs)) [[65;67]; [65;68]; [66;67;68]; [66]; [65;68;67]; [67;67;68]]%N
    = [true; true; true; true; false; false] /\
  consensus ex_seqs = [65;67;68]%N /\ kept_positions ex_seqs = [0;1;2] /\
  consensus_ok ex_seqs [66;67;68]%N = false /\
  count_matrix ex_seqs = [[2;1;0;0];[0;0;2;0];[0;0;0;2]] /\ alphabet ex_seqs = [65;66;67;68]%N.
Proof. repeat split; try (vm_compute; reflexivity); try (repeat constructor); discriminate. Qed.
Definition ex_gapless : list str := [[65;67;68]; [65;68;68]; [66;67;68]]%N.
Example C19_ex_gapless : Forall (fun s => length s = 3) ex_gapless /\ ex_gapless <> [] /\ gapless ex_gapless /\
  render (regex_of ex_gapless) = [91;65;66;93;91;67;68;93;68]%N /\ consensus ex_gapless = [65;67;68]%N.
Proof.
  repeat split; try (vm_compute; reflexivity); try (repeat constructor); try discriminate.
  intros s c Hs Hc. simpl in Hs. repeat (destruct Hs as [<-|Hs]; [simpl in Hc; repeat (destruct Hc as [<-|Hc]; [reflexivity|]); destruct Hc|]).
  destruct Hs.
Qed.
Example C19_ex_rank :
  rank_xy true true (2#1) (1#1) [Some (3#1); None; Some (1#1); Some (5#1); Some (1#1)]%Q <> None /\
  option_map (fun xy => (map Qred (fst xy), map Qred (snd xy)))
    (rank_xy true true (2#1) (1#1) [Some (3#1); None; Some (1#1); Some (5#1); Some (1#1)]%Q)
  = Some ([1#1; 3#5; 1#5; 1#5], [0#1; 1#4; 1#2; 3#4])%Q /\
  rank_xy true false (1#1) (1#1) [Some (1#1); Some (-1#1)]%Q = None.
Proof. repeat split; try discriminate; vm_compute; reflexivity. Qed.
Example C19_ex_colours :
  frequent (Some 2) [1;2;1;3;3;4]%N = [1;3]%N /\ valid_order (Some 2) [1;2;1;3;3;4]%N [3;1]%N = true /\
  colour_slots (Some 2) 0 [3;1]%N [1;2;1;3;3;4]%N = Some [Some 1; None; Some 1; Some 0; Some 0; None] /\
  colour_slots (Some 2) 0 [3;2]%N [1;2;1;3;3;4]%N = None /\
  colour_slots None 2 [3;1;4;2]%N [1;2;1;3;3;4]%N = Some [Some 1; Some 1; Some 1; Some 0; Some 0; Some 0].
Proof. repeat split; vm_compute; reflexivity. Qed.
Example C19_ex_discrete :
  discrete_points [1;2;1;3;1]%Z [4;5;4;6;4]%Z = [((1,4)%Z,3); ((2,5)%Z,1); ((3,6)%Z,1)] /\
  discrete_sorted [1;2;1;3;1]%Z [4;5;4;6;4]%Z = [((2,5)%Z,1); ((3,6)%Z,1); ((1,4)%Z,3)].
Proof. split; vm_compute; reflexivity. Qed.
(* alpha = AB, AC, ABC ; beta = A, AAAA, AA ; order 2,0,1 *)
Example C19_ex_split :
  let alpha := [[65;66]; [65;67]; [65;66;67]]%N in let beta := [[65]; [65;65;65;65]; [65;65]]%N in
  length alpha = length beta /\ Forall (fun k => k < length alpha) [2;0;1] /\
  summed_distances alpha beta = [4; 2; 3] /\
  clustermap_matrix alpha beta [2;0;1] = [[0;1;2]; [1;0;3]; [1;1;0]].
Proof. repeat split; try (vm_compute; reflexivity). repeat constructor. Qed.
