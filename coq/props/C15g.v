(* C15 - source tie: the glue of clustering.graph_clustering('cc') around igraph AS WRITTEN (gen/Gen_c15.v is regenerated from the source text on
   every run): which columns of the neighbour list are the edges, and the tail that drops singleton clusters.  Vocabulary trusted (DESIGN
   section 3): igraph's weakly connected components as ANY labelling constant exactly on the components (cc_labelling), pandas value_counts /
   isin / boolean row selection. *)
From Coq Require Import List Arith Bool Lia.
From PV Require Import model.Cluster gen.Gen_c15 proofs.ClusterP proofs.GenClusterP.
Import ListNotations.

Theorem C15_source_edges : forall adjacency : list (nat * nat * nat),
  gen_edges_of adjacency = map (fun t => [fst (fst t); snd (fst t)]) adjacency.
Proof. exact gen_edges_are_first_two. Qed.
Print Assumptions C15_source_edges.

(* for ANY labelling that is constant exactly on the connected components: the returned table holds exactly the nodes connected to some OTHER
   node, each with its cluster label - so two returned nodes share a cluster iff a path of edges connects them *)
Theorem C15_source_cc : forall n E lab u c, cc_labelling n E lab ->
  (In (u, c) (gen_cluster_tail (seq 0 n) lab) <->
   u < n /\ c = nth u lab 0 /\ exists v, v < n /\ v <> u /\ connected E u v).
Proof. exact gen_cluster_tail_spec. Qed.
Print Assumptions C15_source_cc.

Theorem C15_source_cc_same_cluster : forall n E lab u v cu cv, cc_labelling n E lab ->
  In (u, cu) (gen_cluster_tail (seq 0 n) lab) -> In (v, cv) (gen_cluster_tail (seq 0 n) lab) ->
  (cu = cv <-> connected E u v).
Proof.
  intros n E lab u v cu cv H Hu Hv.
  apply (gen_cluster_tail_spec n E lab u cu H) in Hu. apply (gen_cluster_tail_spec n E lab v cv H) in Hv.
  destruct Hu as (Hu & -> & _). destruct Hv as (Hv & -> & _). apply (proj2 H u v Hu Hv).
Qed.
Print Assumptions C15_source_cc_same_cluster.

(* the model's labelling is such a labelling, and on it the tail as written is the model's graph_cc; the caller's node labels ride along *)
Theorem C15_source_cc_is_model : forall n E, edges_ok n E ->
  cc_labelling n E (components n E) /\ gen_cluster_tail (seq 0 n) (components n E) = graph_cc n E.
Proof. intros n E H. split; [apply components_is_cc_labelling, H|apply gen_cluster_tail_model]. Qed.
Print Assumptions C15_source_cc_is_model.

Theorem C15_source_node_labels : forall (L : Type) (f : nat -> L) n lab,
  gen_cluster_tail (map f (seq 0 n)) lab = map (fun p => (f (fst p), snd p)) (gen_cluster_tail (seq 0 n) lab).
Proof. intros. apply gen_cluster_tail_labels. Qed.
Print Assumptions C15_source_node_labels.

Example C15g_ex : gen_cluster_tail [10; 11; 12; 13; 14] (components 5 [(0, 2); (3, 4)]) = [(10, 0); (12, 0); (13, 3); (14, 3)]
  /\ gen_edges_of [(0, 2, 1); (3, 4, 2)] = [[0; 2]; [3; 4]].
Proof. vm_compute. split; reflexivity. Qed.
