(* C18 - input cleaning is total, cell-local and never alters the caller's table.
   gen_c18_facts is re-read from pyrepseq/io.py on every run (except clauses, the `and` chain of isvalidcdr3,
   how `on` reaches pd.merge, the standardised columns); the theorems are about the model under THOSE facts. *)
From Coq Require Import List NArith ZArith QArith Bool Arith.
From PV Require Import lib.PyObj gen.Gen_consts gen.Gen_c18 model.Clean proofs.CleanP.
Import ListNotations.
Close Scope Q_scope.
Open Scope nat_scope.

(* ---- predicates --------------------------------------------------------------------------------- *)
(* for every object of the universe both predicates return a bool: no exception escapes *)
Theorem C18_total : forall o : pyobj,
  (exists b, isvalidaa gen_c18_facts o = Ok b) /\ (exists b, isvalidcdr3 gen_c18_facts o = Ok b).
Proof.
  intros o. split; [apply isvalidaa_total|apply isvalidcdr3_total]; vm_compute; reflexivity.
Qed.
Print Assumptions C18_total.

(* on the tree before the repair the same statement is false (D10): witnesses *)
Theorem C18_total_refuted_on_original :
  isvalidcdr3 original_facts (PStr []) = Raise IndexError /\
  isvalidcdr3 original_facts (PBytes []) = Raise IndexError /\
  isvalidcdr3 original_facts (PList []) = Raise IndexError /\
  isvalidcdr3 original_facts (PTuple []) = Raise IndexError /\
  isvalidcdr3 original_facts (PDict []) = Raise KeyError /\
  isvalidcdr3 original_facts (PDict [(PStr [67%N], PInt 1)]) = Raise KeyError.
Proof. repeat split; vm_compute; reflexivity. Qed.
Print Assumptions C18_total_refuted_on_original.

Theorem C18_aa_string : forall s : str,
  isvalidaa gen_c18_facts (PStr s) = Ok (aa_spec s) /\
  (aa_spec s = true <-> Forall (fun c => In c gen_aminoacids) s).
Proof. intros s. split; [apply isvalidaa_str|apply aa_spec_iff]. Qed.
Print Assumptions C18_aa_string.

(* True exactly for non-empty strings over the alphabet that start with C and end in F, W or C *)
Theorem C18_cdr3_string : forall s : str,
  isvalidcdr3 gen_c18_facts (PStr s) = Ok (cdr3_spec s) /\
  (cdr3_spec s = true <->
     Forall (fun c => In c gen_aminoacids) s /\ (exists t, s = 67%N :: t) /\
     (exists p c, s = p ++ [c] /\ In c [70; 87; 67]%N)).
Proof. intros s. split; [apply isvalidcdr3_str_gen|apply cdr3_spec_iff]. Qed.
Print Assumptions C18_cdr3_string.

(* the alphabet re-read from io.py is the 20 standard letters ACDEFGHIKLMNPQRSTVWY *)
Theorem C18_alphabet : gen_aminoacids = [65;67;68;69;70;71;72;73;75;76;77;78;80;81;82;83;84;86;87;89]%N /\ NoDup gen_aminoacids.
Proof.
  split; [reflexivity|].
  repeat (constructor; [simpl; intros H; repeat (destruct H as [H|H]; [discriminate|]); exact H|]). constructor.
Qed.
Print Assumptions C18_alphabet.

Theorem C18_missing_false : forall (z : Z) (q : Q) (b : bool) (o : pyobj),
  In o [PNone; PNaN; PNA; PInt z; PFloat q; PBool b; POpaque] ->
  isvalidaa gen_c18_facts o = Ok false /\ isvalidcdr3 gen_c18_facts o = Ok false.
Proof.
  intros z q b o H. simpl in H.
  repeat (destruct H as [<-|H]; [split; vm_compute; reflexivity|]). contradiction.
Qed.
Print Assumptions C18_missing_false.

(* ---- standardize_dataframe: for an ARBITRARY per-cell standardiser f (tidytcells is the oracle) ----- *)
Section C18_std.
Variable opts : Type.
Variable f : nat -> opts -> str -> cell.
Let std := standardize opts f gen_c18_facts.

(* index, column count / order / names (renamed), row count preserved; non-standard columns identical;
   a cell of a standard column is cell_fn of the cell at the same place: missing stays missing, a string s
   becomes f kind options s; nothing else of the table enters *)
Theorem C18_cell_local : forall (m : list (str * str)) (o : opts) (t : table),
  fst (std m true o t) = fst t /\
  map fst (snd (std m true o t)) = map (rename m) (map fst (snd t)) /\
  (forall j n cells, nth_error (snd t) j = Some (n, cells) ->
     exists cells', nth_error (snd (std m true o t)) j = Some (rename m n, cells') /\
       length cells' = length cells /\
       (std_kind gen_c18_facts (rename m n) = None -> cells' = cells) /\
       forall i, nth_error cells' i =
                 option_map (cell_fn opts f o (std_kind gen_c18_facts (rename m n))) (nth_error cells i)) /\
  (forall (t2 : table) j i n c1 c2 n1 d1 n2 d2,
     nth_error (snd t) j = Some (n, c1) -> nth_error (snd t2) j = Some (n, c2) -> nth_error c1 i = nth_error c2 i ->
     nth_error (snd (std m true o t)) j = Some (n1, d1) -> nth_error (snd (std m true o t2)) j = Some (n2, d2) ->
     n1 = n2 /\ nth_error d1 i = nth_error d2 i).
Proof.
  intros m o t. split; [reflexivity|]. split; [apply standardize_names|]. split.
  - intros j n cells H. destruct (standardize_cell opts f gen_c18_facts m o t j n cells H) as [c' [H1 [H2 H3]]].
    exists c'. repeat split; auto. intros K.
    pose proof (standardize_nonstd opts f gen_c18_facts m o t j n cells H K) as H4.
    unfold std in *. rewrite H1 in H4. congruence.
  - intros t2 j i n c1 c2 n1 d1 n2 d2 A B C D E.
    exact (standardize_local opts f gen_c18_facts m true o t t2 j i n c1 c2 A B C n1 d1 n2 d2 D E).
Qed.

Theorem C18_na_stays : forall o k, cell_fn opts f o k None = None.
Proof. intros. apply cell_fn_na. Qed.

Theorem C18_cell_value : forall o k s, cell_fn opts f o (Some k) (Some s) = f k o s.
Proof. reflexivity. Qed.

Theorem C18_no_standardize : forall m o (t : table),
  std m false o t = (fst t, map (fun c => (rename m (fst c), snd c)) (snd t)).
Proof. reflexivity. Qed.
End C18_std.
Print Assumptions C18_cell_local.
Print Assumptions C18_na_stays.
Print Assumptions C18_cell_value.
Print Assumptions C18_no_standardize.

(* the nine standard columns and the standardiser each one gets (0 junction, 1 tr, 2 mh, 3 aa), as the code has them *)
Theorem C18_std_columns : forall c k, std_kind gen_c18_facts c = Some k <->
  In (c, k) [ ([67;68;82;51;65]%N, 0); ([67;68;82;51;66]%N, 0);                          (* CDR3A CDR3B *)
              ([84;82;65;86]%N, 1); ([84;82;65;74]%N, 1); ([84;82;66;86]%N, 1); ([84;82;66;74]%N, 1);   (* TRAV TRAJ TRBV TRBJ *)
              ([77;72;67;65]%N, 2); ([77;72;67;66]%N, 2);                                (* MHCA MHCB *)
              ([69;112;105;116;111;112;101]%N, 3) ].                                     (* Epitope *)
Proof.
  intros c k. unfold std_kind. cbn [std_cols gen_c18_facts]. split.
  - intros H. apply assoc_some_in in H. simpl In in *. tauto.
  - simpl In. intros H. repeat (destruct H as [H|H]; [inversion H; subst; vm_compute; reflexivity|]). contradiction.
Qed.
Print Assumptions C18_std_columns.

(* ---- multimerge ------------------------------------------------------------------------------------- *)
(* for 1 or more tables with unique keys (any number, not only 2-4), on the index or a column, with or without
   suffixes: the call returns; the result's columns are the tables' (suffixed) columns in order, its keys are the
   union (outer) / intersection (inner) of the tables' keys, each once, and the row of a key is the concatenation
   of the tables' rows for that key, padded with missing values where a table lacks the key *)
Theorem C18_merge_keys : forall (on_index outer : bool) (sufs : list str) (ts : list ktable),
  ts <> [] -> (sufs = [] \/ length sufs = length ts) -> Forall (fun t => NoDup (keys t)) ts ->
  exists res, multimerge gen_c18_facts on_index sufs outer ts = Ok res /\
    kcols res = concat (map kcols (suffixed sufs ts)) /\
    NoDup (keys res) /\
    (forall k, In k (keys res) <->
       if outer then exists t, In t ts /\ In k (keys t) else forall t, In t ts -> In k (keys t)) /\
    (forall k row, In (k, row) (krows res) -> row = concat (map (row_or_pad k) ts)).
Proof.
  intros oi outer sufs ts NE L ND.
  rewrite multimerge_kw by reflexivity.
  assert (E1 : map keys (suffixed sufs ts) = map keys ts /\
               forall k, map (row_or_pad k) (suffixed sufs ts) = map (row_or_pad k) ts).
  { unfold suffixed. destruct sufs as [|s0 sr]; [auto|]. destruct L as [L|L]; [discriminate|].
    split; [|intros k]; rewrite map_map;
      [rewrite (map_ext _ (fun p => keys (fst p)) keys_add_suffix)
      |rewrite (map_ext _ (fun p => row_or_pad k (fst p)) (row_add_suffix k))];
      rewrite <- (map_map fst), map_fst_combine; auto. }
  destruct E1 as [EK ER].
  destruct (reduce_join_spec outer (suffixed sufs ts)) as [res [R [S1 [S2 [S3 S4]]]]].
  - intros E. apply NE. apply (f_equal (map keys)) in E. rewrite EK in E. destruct ts; [reflexivity|discriminate].
  - apply Forall_forall. intros t Ht. apply (in_map keys) in Ht. rewrite EK in Ht. apply in_map_iff in Ht.
    destruct Ht as [t0 [E Ht0]]. rewrite <- E. rewrite Forall_forall in ND. now apply ND.
  - exists res. split; [exact R|]. split; [exact S1|]. split; [exact S2|]. split.
    + intros k. rewrite S3. destruct outer.
      * split; intros [t [Ht Hk]].
        -- apply (in_map keys) in Ht. rewrite EK in Ht. apply in_map_iff in Ht. destruct Ht as [t0 [E Ht0]].
           exists t0. split; auto. now rewrite E.
        -- apply (in_map keys) in Ht. rewrite <- EK in Ht. apply in_map_iff in Ht. destruct Ht as [t0 [E Ht0]].
           exists t0. split; auto. now rewrite E.
      * split; intros H t Ht.
        -- apply (in_map keys) in Ht. rewrite <- EK in Ht. apply in_map_iff in Ht. destruct Ht as [t0 [E Ht0]].
           rewrite <- E. now apply H.
        -- apply (in_map keys) in Ht. rewrite EK in Ht. apply in_map_iff in Ht. destruct Ht as [t0 [E Ht0]].
           rewrite <- E. now apply H.
    + intros k row H. rewrite (S4 k row H). now rewrite ER.
Qed.
Print Assumptions C18_merge_keys.

(* on the tree before the repair (D11): joining two tables on a column without suffixes raises TypeError *)
Theorem C18_merge_refuted_on_original : forall outer t1 t2 r,
  multimerge original_facts false [] outer (t1 :: t2 :: r) = Raise TypeError.
Proof. reflexivity. Qed.
Print Assumptions C18_merge_refuted_on_original.

(* ---- multimerge, keys that repeat inside a table (many-to-many join) --------------------------------- *)
(* `multimerge_m` drops the unique-key hypothesis.  For 1 or more tables, on the index or a column, with or without
   suffixes: the call returns; the columns are the tables' (suffixed) columns in order; a key is in the result iff
   some table (outer) / every table (inner) has it; and the rows the result holds for a key are the PRODUCT of the
   tables' rows for that key, in lexicographic order, where in an outer join a table without the key contributes one
   all-missing row (`rows_or_pad`).  Together with `C18_rows_multiset` this fixes the multiset of (key, row) pairs of
   the result, which is what the harness compares (pandas' row order is an implementation detail). *)
Theorem C18_merge_rows : forall (on_index outer : bool) (sufs : list str) (ts : list ktable),
  ts <> [] -> (sufs = [] \/ length sufs = length ts) ->
  exists res, multimerge_m gen_c18_facts on_index sufs outer ts = Ok res /\
    kcols res = concat (map kcols (suffixed sufs ts)) /\
    (forall k, In k (keys res) <->
       if outer then exists t, In t ts /\ In k (keys t) else forall t, In t ts -> In k (keys t)) /\
    (forall k, In k (keys res) -> rows_of k res = nprod (rows_or_pad k) ts) /\
    (forall k, ~ In k (keys res) -> rows_of k res = []).
Proof.
  intros oi outer sufs ts NE L.
  rewrite multimerge_m_kw by reflexivity.
  assert (E1 : map keys (suffixed sufs ts) = map keys ts /\
               forall k, nprod (rows_or_pad k) (suffixed sufs ts) = nprod (rows_or_pad k) ts).
  { unfold suffixed. destruct sufs as [|s0 sr]; [auto|]. destruct L as [L|L]; [discriminate|].
    split; [|intros k].
    - rewrite map_map, (map_ext _ (fun p => keys (fst p)) keys_add_suffix), <- (map_map fst), map_fst_combine; auto.
    - rewrite (nprod_map _ (rows_or_pad k) add_suffix _ (rows_or_pad_add_suffix k)), map_fst_combine; auto. }
  destruct E1 as [EK ER].
  destruct (reduce_join_m_spec outer (suffixed sufs ts)) as [res [R [S1 [S3 [S4 S5]]]]].
  - intros E. apply NE. apply (f_equal (map keys)) in E. rewrite EK in E. destruct ts; [reflexivity|discriminate].
  - exists res. split; [exact R|]. split; [exact S1|]. split; [|split; [|exact S5]].
    + intros k. rewrite S3. destruct outer.
      * split; intros [t [Ht Hk]].
        -- apply (in_map keys) in Ht. rewrite EK in Ht. apply in_map_iff in Ht. destruct Ht as [t0 [E Ht0]].
           exists t0. split; auto. now rewrite E.
        -- apply (in_map keys) in Ht. rewrite <- EK in Ht. apply in_map_iff in Ht. destruct Ht as [t0 [E Ht0]].
           exists t0. split; auto. now rewrite E.
      * split; intros H t Ht.
        -- apply (in_map keys) in Ht. rewrite <- EK in Ht. apply in_map_iff in Ht. destruct Ht as [t0 [E Ht0]].
           rewrite <- E. now apply H.
        -- apply (in_map keys) in Ht. rewrite EK in Ht. apply in_map_iff in Ht. destruct Ht as [t0 [E Ht0]].
           rewrite <- E. now apply H.
    + intros k H. rewrite (S4 k H). apply ER.
Qed.
Print Assumptions C18_merge_rows.

(* the per-key row lists determine the multiset of (key, row) pairs of any table *)
Theorem C18_rows_multiset : forall (t : ktable) (k : str) (row : list cell),
  count_occ krow_dec (krows t) (k, row) = count_occ row_dec (rows_of k t) row.
Proof. exact rows_of_count. Qed.
Print Assumptions C18_rows_multiset.

(* on tables with unique keys the many-to-many model coincides with the unique-key model of C18_merge_keys, so the
   oracle may serve `multimerge_m` for every case without leaving the older theorem behind *)
Theorem C18_merge_m_unique : forall F (on_index outer : bool) (sufs : list str) (ts : list ktable),
  Forall (fun t => NoDup (keys t)) ts ->
  multimerge_m F on_index sufs outer ts = multimerge F on_index sufs outer ts.
Proof. intros. now apply multimerge_m_unique. Qed.
Print Assumptions C18_merge_m_unique.

(* ---- non-vacuity ------------------------------------------------------------------------------------ *)
Example C18_ex_predicates :
  isvalidcdr3 gen_c18_facts (PStr [67; 65; 83; 83; 70]%N) = Ok true /\          (* "CASSF" *)
  isvalidcdr3 gen_c18_facts (PStr [67; 65; 83; 83; 65]%N) = Ok false /\         (* "CASSA" *)
  isvalidcdr3 gen_c18_facts (PStr []) = Ok false /\
  isvalidcdr3 gen_c18_facts (PDict [(PStr [67%N], PInt 1)]) = Ok false /\
  isvalidcdr3 gen_c18_facts (PList [PStr [67%N]; PStr [70%N]]) = Ok true /\     (* ['C','F'] passes, as in the code *)
  isvalidaa gen_c18_facts (PList [PStr [67%N]; PList []]) = Ok false /\         (* unhashable element: TypeError caught *)
  isvalidaa gen_c18_facts (PStr [67; 66]%N) = Ok false.                          (* "CB" *)
Proof. repeat split; vm_compute; reflexivity. Qed.

Example C18_ex_standardize :
  let f := fun (k : nat) (_ : unit) (s : str) => if Nat.eqb k 1 then Some (s ++ [33%N]) else None in
  standardize unit f gen_c18_facts [([102]%N, [84;82;66;86]%N)] true tt
    ([[48]%N; [49]%N], [([102]%N, [Some [97%N]; None]); ([120]%N, [Some [98%N]; None])])
  = ([[48]%N; [49]%N], [([84;82;66;86]%N, [Some [97; 33]%N; None]); ([120]%N, [Some [98%N]; None])]).
Proof. vm_compute. reflexivity. Qed.

Example C18_ex_merge :
  let a : ktable := ([[118]%N], [([97]%N, [Some [49%N]]); ([98]%N, [Some [50%N]])]) in
  let b : ktable := ([[119]%N], [([98]%N, [Some [51%N]]); ([99]%N, [None])]) in
  multimerge gen_c18_facts false [] true [a; b] =
    Ok ([[118]%N; [119]%N], [([97]%N, [Some [49%N]; None]); ([98]%N, [Some [50%N]; Some [51%N]]); ([99]%N, [None; None])]) /\
  multimerge gen_c18_facts false [[49]%N; [50]%N] false [a; b] =
    Ok ([[118; 95; 49]%N; [119; 95; 50]%N], [([98]%N, [Some [50%N]; Some [51%N]])]).
Proof. split; vm_compute; reflexivity. Qed.

(* many-to-many: key "a" twice in both tables gives 2 x 2 rows, key "b" once in each gives 1, key "c" only in the
   second table is padded (outer) / dropped (inner) *)
Example C18_ex_merge_many :
  let a : ktable := ([[118]%N], [([97]%N, [Some [49%N]]); ([97]%N, [Some [50%N]]); ([98]%N, [Some [51%N]])]) in
  let b : ktable := ([[119]%N], [([97]%N, [Some [52%N]]); ([99]%N, [None]); ([97]%N, [Some [53%N]]); ([98]%N, [Some [54%N]])]) in
  multimerge_m gen_c18_facts true [[49]%N; [50]%N] true [a; b] =
    Ok ([[118; 95; 49]%N; [119; 95; 50]%N],
        [([97]%N, [Some [49%N]; Some [52%N]]); ([97]%N, [Some [49%N]; Some [53%N]]);
         ([97]%N, [Some [50%N]; Some [52%N]]); ([97]%N, [Some [50%N]; Some [53%N]]);
         ([98]%N, [Some [51%N]; Some [54%N]]); ([99]%N, [None; None])]) /\
  (exists res, multimerge_m gen_c18_facts false [] false [a; b] = Ok res /\ length (krows res) = 5) /\
  nprod (rows_or_pad [97]%N) [a; b] =
    [[Some [49%N]; Some [52%N]]; [Some [49%N]; Some [53%N]]; [Some [50%N]; Some [52%N]]; [Some [50%N]; Some [53%N]]] /\
  nprod (rows_or_pad [99]%N) [a; b] = [[None; None]].
Proof. repeat split; try (eexists; split); vm_compute; reflexivity. Qed.
