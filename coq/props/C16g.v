(* C16 - source tie: jaccard_index, overlap and overlap_coefficient as written in pyrepseq/stats.py today (gen/Gen_c16.v is
   regenerated from the source text on every run) are |A n B| / |A u B|, |A n B| and |A n B| / min(|A|, |B|) on the element sets
   after the documented removal of missing values.  A collection = (is it a pandas Series, its elements with None = missing). *)
From Coq Require Import List Arith Bool NArith QArith.
From PV Require Import lib.Val lib.PySet gen.Gen_c16 model.Richness proofs.RichnessP proofs.GenSetsP.
Import ListNotations.

(* jaccard_index documents the removal for Series only: elsewhere the statement speaks about collections without missing values *)
Theorem C16_source_jaccard : forall sA sB A B, (sA = true \/ ~ In None A) -> (sB = true \/ ~ In None B) ->
  gen_jaccard_index sA sB A B = of_option (jaccard A B).
Proof. exact gen_jaccard_ok. Qed.
Print Assumptions C16_source_jaccard.

Theorem C16_source_overlap : forall sA sB A B, gen_overlap sA sB A B = SNat (overlap A B).
Proof. exact gen_overlap_ok. Qed.
Print Assumptions C16_source_overlap.

Theorem C16_source_overlap_coefficient : forall sA sB A B,
  gen_overlap_coefficient sA sB A B = of_val (overlap_coefficient A B).
Proof. exact gen_overlap_coefficient_ok. Qed.
Print Assumptions C16_source_overlap_coefficient.

(* the guard of C16_source_jaccard is not idle: a missing value in a non-Series collection counts as an element of the set *)
Example C16g_jaccard_list_with_missing :
  gen_jaccard_index false false [Some 1%N; None] [Some 1%N] <> of_option (jaccard [Some 1%N; None] [Some 1%N]) /\
  gen_jaccard_index true false [Some 1%N; None] [Some 1%N] = of_option (jaccard [Some 1%N; None] [Some 1%N]).
Proof. split; [vm_compute; discriminate|vm_compute; reflexivity]. Qed.

Example C16g_ex : gen_overlap false true [Some 1; Some 2; Some 2; None]%N [Some 2; Some 3; None]%N = SNat 1 /\
  gen_overlap_coefficient false false [Some 1; Some 2]%N [None] = SNaN.
Proof. split; vm_compute; reflexivity. Qed.
