(* C10 - source tie (second part): the matrix construction of nn._make_output AS WRITTEN (gen/Gen_c10b.v, regenerated from the source text on
   every run) encodes exactly the triplet result.  Vocabulary trusted (DESIGN section 3): scipy.sparse.coo_matrix((data, (row, col)), shape)
   and .toarray() (model/CooMatrix.v: entries with equal coordinates are added). *)
From Coq Require Import List ZArith Bool Arith Lia.
From PV Require Import model.Output model.CooMatrix gen.Gen_c10b proofs.OutputP proofs.GenOutputP.
Import ListNotations.

Theorem C10_source_matrix_is_model : forall (trip : list (nat * nat * Z)) (len_seqs : nat) (len_seqs2 : option nat),
  coo_toarray (gen_make_output_coo trip len_seqs len_seqs2)
  = coo_dense (fst (out_shape len_seqs len_seqs2)) (snd (out_shape len_seqs len_seqs2)) trip.
Proof. exact gen_make_output_dense. Qed.
Print Assumptions C10_source_matrix_is_model.

(* hence: shape (len(seqs), len(seqs2)) - square without a second collection -, d at [r, q] for each triplet (q, r, d) of a result in which
   no pair is repeated, 0 elsewhere *)
Theorem C10_source_matrix : forall (trip : list (nat * nat * Z)) (len_seqs : nat) (len_seqs2 : option nat) (r q : nat),
  NoDup (map fst trip) ->
  let nrows := len_seqs in
  let ncols := match len_seqs2 with Some m => m | None => len_seqs end in
  let M := coo_toarray (gen_make_output_coo trip len_seqs len_seqs2) in
  fst (gen_make_output_coo trip len_seqs len_seqs2) = (nrows, ncols) /\
  length M = nrows /\ Forall (fun row => length row = ncols) M /\
  (r < nrows -> q < ncols ->
   (forall d, In (q, r, d) trip -> nth q (nth r M []) 0%Z = d) /\
   ((forall d, ~ In (q, r, d) trip) -> nth q (nth r M []) 0%Z = 0%Z)).
Proof.
  intros trip len_seqs len_seqs2 r q ND nrows ncols M.
  assert (EM : M = coo_dense nrows ncols trip).
  { unfold M. rewrite gen_make_output_dense. unfold out_shape. cbn [fst snd]. reflexivity. }
  split; [unfold gen_make_output_coo; destruct len_seqs2; reflexivity|].
  rewrite EM. split; [unfold coo_dense; now rewrite map_length, seq_length|].
  split.
  - apply Forall_forall. intros row H. unfold coo_dense in H. apply in_map_iff in H as (r0 & <- & _). now rewrite map_length, seq_length.
  - intros Hr Hq. rewrite coo_dense_entry by assumption. split.
    + intros d Hd. now apply entry_present.
    + apply entry_absent.
Qed.
Print Assumptions C10_source_matrix.

Example C10h_ex :
  gen_make_output_coo [(0, 2, 1%Z); (1, 0, 3%Z)] 3 (Some 2) = ((3, 2), ([1%Z; 3%Z], ([2; 0], [0; 1]))) /\
  coo_toarray (gen_make_output_coo [(0, 2, 1%Z); (1, 0, 3%Z)] 3 (Some 2)) = [[0; 3]; [0; 0]; [1; 0]]%Z.
Proof. vm_compute. split; reflexivity. Qed.
