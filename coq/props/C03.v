(* C03 - two-collection search returns exactly the query/reference pairs within range. *)
From Coq Require Import List NArith Bool Arith Lia.
From PV Require Import lib.Edits lib.LevDP lib.Str model.Symdel model.Nbrs model.Engines
                       proofs.SymdelP proofs.NbrsP proofs.EnginesP.
Import ListNotations.

Definition symdel_two (k : nat) (refs queries : list str) := symdel_lookup (keep_lev k) k refs queries.
Definition lookupdb_two (k : nat) (refs queries : list str) :=
  lookupdb_lookup val_lev (lev_nbrs aa_letters) k false refs queries.

Theorem C03_symdel_exact : forall k refs queries q r d,
  In (q, r, d) (symdel_two k refs queries) <->
  q < length queries /\ r < length refs /\ d = slev (sget queries q) (sget refs r) /\ d <= k.
Proof.
  intros. unfold symdel_two. rewrite (symdel_lookup_spec (keep_lev k) k (keep_lev_within k)).
  rewrite keep_lev_spec. tauto.
Qed.
Print Assumptions C03_symdel_exact.

Theorem C03_symdel_each_pair_once : forall k refs queries, NoDup (map fst (symdel_two k refs queries)).
Proof. intros. apply symdel_lookup_nodup_pairs. Qed.
Print Assumptions C03_symdel_each_pair_once.

(* explicitly: identical sequences (d = 0) and numerically equal positions are reported *)
Theorem C03_includes_equal_positions_and_identical : forall k refs queries q,
  q < length queries -> q < length refs -> sget queries q = sget refs q -> In (q, q, 0) (symdel_two k refs queries).
Proof.
  intros k refs queries q H1 H2 E. apply C03_symdel_exact. repeat split; auto; try lia.
  rewrite E. unfold slev. now rewrite lev_refl.
Qed.
Print Assumptions C03_includes_equal_positions_and_identical.

(* the breadth-first edit ball of the hash lookup holds exactly the strings within k edits *)
Theorem C03_ball_exact : forall k x y, over_aa y ->
  (In y (ball (lev_nbrs aa_letters) k x) <-> slev x y <= k).
Proof. intros k x y H. apply ball_lev. exact H. Qed.
Print Assumptions C03_ball_exact.

Theorem C03_lookupdb_exact : forall k refs queries q r d, (forall s, In s refs -> over_aa s) ->
  (In (q, r, d) (lookupdb_two k refs queries) <->
   q < length queries /\ r < length refs /\ d = slev (sget queries q) (sget refs r) /\ d <= k).
Proof.
  intros k refs queries q r d Hal. unfold lookupdb_two.
  rewrite (lookupdb_spec val_lev (lev_nbrs aa_letters) k (fun a b => slev a b <= k) false refs queries q r d).
  - unfold val_lev. rewrite slev_x_spec. split.
    + intros (H1 & H2 & _ & H3 & [= <-]). auto.
    + intros (H1 & H2 & -> & H3). repeat split; auto. discriminate.
  - intros qs e He. apply ball_lev. apply Hal. exact He.
Qed.
Print Assumptions C03_lookupdb_exact.

Theorem C03_lookupdb_each_pair_once : forall k refs queries, NoDup (map fst (lookupdb_two k refs queries)).
Proof. intros. apply lookupdb_nodup_pairs. exact (fun _ _ => True). Qed.
Print Assumptions C03_lookupdb_each_pair_once.

(* a database is the pair (refs, k); a lookup does not change it, so any history of lookups leaves every
   later answer equal to a fresh one-shot search *)
Definition db := (nat * list str)%type.
Definition db_lookup (st : db) (queries : list str) : db * list (nat * nat * nat) :=
  (st, symdel_two (fst st) (snd st) queries).
Definition db_run (st : db) (h : list (list str)) : db := fold_left (fun s q => fst (db_lookup s q)) h st.
Theorem C03_history : forall k refs (h : list (list str)) queries,
  db_run (k, refs) h = (k, refs) /\ snd (db_lookup (db_run (k, refs) h) queries) = symdel_two k refs queries.
Proof.
  intros k refs h queries. assert (E: db_run (k, refs) h = (k, refs)).
  { induction h as [|q h IH]; simpl; auto. }
  split; auto. now rewrite E.
Qed.
Print Assumptions C03_history.

(* LookupDB takes the radius per lookup: a history of lookups at ANY radii leaves the database unchanged and a later
   answer is the one-shot answer for ITS OWN radius (nothing is remembered from an earlier radius) *)
Definition ldb_lookup (refs : list str) (kq : nat * list str) : list str * list (nat * nat * nat) :=
  (refs, lookupdb_two (fst kq) refs (snd kq)).
Definition ldb_run (refs : list str) (h : list (nat * list str)) : list str := fold_left (fun s kq => fst (ldb_lookup s kq)) h refs.
Theorem C03_history_lookupdb : forall refs (h : list (nat * list str)) k queries,
  ldb_run refs h = refs /\ snd (ldb_lookup (ldb_run refs h) (k, queries)) = lookupdb_two k refs queries.
Proof.
  intros refs h k queries. assert (E: ldb_run refs h = refs).
  { unfold ldb_run. induction h as [|q h IH]; simpl; auto. }
  split; auto. now rewrite E.
Qed.
Print Assumptions C03_history_lookupdb.

Theorem C03_brute_force_agrees : forall k refs queries t,
  In t (symdel_two k refs queries) <-> In t (all_pairs_cross (keep_lev k) refs queries).
Proof.
  intros k refs queries [[q r] d]. unfold symdel_two.
  rewrite (symdel_lookup_spec (keep_lev k) k (keep_lev_within k)). now rewrite all_pairs_cross_spec.
Qed.
Print Assumptions C03_brute_force_agrees.

Example C03_ex : symdel_two 1 [[67;65;65;65]; [67;68;68;68]; [67;65;68;65]]%N [[67;65;65;65]; [67;68;68;68]]%N
  = [(0, 2, 1); (0, 0, 0); (1, 1, 0)].
Proof. vm_compute. reflexivity. Qed.
Example C03_ex_lookupdb : lookupdb_two 1 [[67;65;65;65]; [67;68;68;68]; [67;65;68;65]]%N [[67;65;65;65]; [67;68;68;68]]%N
  = [(0, 0, 0); (0, 2, 1); (1, 1, 0)].
Proof. vm_compute. reflexivity. Qed.
