(* C20 - calls are pure: arguments stay untouched and results ignore the call history.
   gen_table is regenerated from pyrepseq/**/*.py on every run (translate/regen_c20.py);
   the state machine and its lemmas are in model/Effects.v and proofs/EffectsP.v. *)
From Coq Require Import List String Bool Arith ZArith.
From PV Require Import model.Effects proofs.EffectsP gen.Gen_c20.
Import ListNotations.
Open Scope string_scope.
Open Scope list_scope.

(* The obligation a new in-place update breaks: no public callable of the current source mutates a
   parameter, an alias of one, a default object or a module-level object, contains an unclassifiable
   construct, or reads a module global that some public callable writes before having written it itself. *)
Theorem C20_pure_table : table_pure (public gen_table) = true.
Proof. vm_compute. reflexivity. Qed.
Print Assumptions C20_pure_table.

(* For ANY pure table, any uninterpreted bodies [res] (which see exactly what the summaries allow and
   may raise), any initial state and any finite history h of calls (in any order, with repetitions,
   including calls that raise or name no callable):
   - a deterministic call c has the same outcome (value or exception) after h as in the initial state;
   - every caller-owned object and every default object is as it was;
   - also after c itself. *)
Theorem C20_noninterference : forall (T : table) (res : string -> list value -> outcome * list value),
  table_pure T = true ->
  forall (h : list call) (c : call) (s0 : st),
    (is_random T c = false -> snd (step T res (run T res s0 h) c) = snd (step T res s0 c))
    /\ (forall o, run T res s0 h (LArg o) = s0 (LArg o))
    /\ (forall f p, run T res s0 h (LDef f p) = s0 (LDef f p))
    /\ (forall o, run T res s0 (h ++ [c]) (LArg o) = s0 (LArg o))
    /\ (forall f p, run T res s0 (h ++ [c]) (LDef f p) = s0 (LDef f p)).
Proof.
  intros T res P h c s0. repeat split; intros.
  - apply outcome_ignores_history; assumption.
  - apply args_unchanged; assumption.
  - apply defaults_unchanged; assumption.
  - apply args_unchanged; assumption.
  - apply defaults_unchanged; assumption.
Qed.
Print Assumptions C20_noninterference.

(* Randomised calls: after np.random.seed(r) the outcome is the same whatever ran before. *)
Theorem C20_seeded : forall (T : table) (res : string -> list value -> outcome * list value),
  table_pure T = true ->
  forall (h : list call) (c : call) (s0 : st) (r : value),
    snd (step T res (seed (run T res s0 h) r) c) = snd (step T res (seed s0 r) c).
Proof. intros T res P h c s0 r. apply outcome_seeded; assumption. Qed.
Print Assumptions C20_seeded.

(* Write-before-read of module globals (nn._cal_params): in every execution of a public callable of the
   current source - complete, or cut short by an exception - the values it reads from module globals do
   not depend on what earlier calls left in any global that some call writes: such a read always sees a
   value written earlier by the same call.  (wv: uninterpreted values written; s1, s2: two arbitrary
   stores agreeing only on the never-written module constants.) *)
Theorem C20_cal_params : forall e t wv s1 s2,
  In e (public gen_table) -> runs_prefix (e_glob e) t ->
  (forall g, ~ In g (allwrites (public gen_table)) -> s1 g = s2 g) ->
  snd (exec wv t s1 []) = snd (exec wv t s2 []).
Proof.
  intros e t wv s1 s2 He Hp Hs. eapply pure_reads_dominated; eauto. exact C20_pure_table.
Qed.
Print Assumptions C20_cal_params.

(* the dataflow analysis behind it, for any effect tree: reads of a run that are not preceded by a
   write of the same run are among rbw, also for runs cut short *)
Theorem C20_rbw_sound : forall e t, runs_prefix e t -> incl (lin_rbw [] t) (rbw [] e).
Proof. intros e t H. apply rbw_sound_prefix. exact H. Qed.
Print Assumptions C20_rbw_sound.

(* ---- non-vacuity ---- *)
(* the generated table is not trivial: kdtree writes nn._cal_params and its only undominated reads are
   of the never-written constant io.aminoacids *)
Example C20_ex_kdtree :
  match find_entry gen_table "nn.kdtree" with
  | Some e => e_public e = true /\ mem "nn._cal_params" (writes (e_glob e)) = true
              /\ mem "nn._cal_params" (rbw [] (e_glob e)) = false
              /\ mem "io.aminoacids" (rbw [] (e_glob e)) = true
  | None => False
  end.
Proof. vm_compute. repeat split; reflexivity. Qed.

Example C20_ex_table_size : (60 <=? List.length (public gen_table))%nat = true /\ existsb e_rng (public gen_table) = true.
Proof. vm_compute. split; reflexivity. Qed.

(* a reordering that reads before writing is seen by the analysis *)
Example C20_ex_rbw_order :
  rbw [] (ESeq (ELoop (ERead "g")) (EWrite "g")) = ["g"] /\ rbw [] (ESeq (EWrite "g") (ELoop (ERead "g"))) = []
  /\ rbw [] (ESeq (EAlt (EWrite "g") ESkip) (ERead "g")) = ["g"] /\ rbw [] (ESeq (ELoop (EWrite "g")) (ERead "g")) = ["g"].
Proof. vm_compute. repeat split; reflexivity. Qed.

(* the hypothesis of C20_noninterference is needed, and the model expresses defect D12: with a callable
   that updates its own default object (as similarity_clustermap did with cbar_kws) there are bodies for
   which the second call returns something else than the first *)
Definition d12_table : table :=
  [mk_entry "plotting.similarity_clustermap" true false ["df"; "cbar_kws"] ["cbar_kws"] ["cbar_kws"] ["cbar_kws"] [] [] ESkip].
Definition d12_res (f : string) (vs : list value) : outcome * list value :=
  (Ret (nth 1 vs 0%Z), [(nth 1 vs 0 + 1)%Z]).
Definition d12_call : call := mk_call "plotting.similarity_clustermap" [("df", 0%nat)].
Example C20_ex_d12 :
  table_pure d12_table = false
  /\ snd (step d12_table d12_res (run d12_table d12_res (fun _ => 0%Z) [d12_call]) d12_call)
     <> snd (step d12_table d12_res (fun _ => 0%Z) d12_call)
  /\ run d12_table d12_res (fun _ => 0%Z) [d12_call] (LDef "plotting.similarity_clustermap" "cbar_kws") = 1%Z.
Proof. vm_compute. repeat split; try reflexivity. discriminate. Qed.

(* the hypotheses of C20_noninterference are met by a table with a write-before-read global and a
   randomised callable, and the machine computes: kdtree's outcome after a history equals the fresh one *)
Definition ex_table : table :=
  [mk_entry "kdtree" true false ["seqs"] [] [] [] [] [] (ESeq (EWrite "p") (ELoop (ERead "p")));
   mk_entry "shuffle" true true ["x"] [] [] [] [] [] (ERead "alphabet")].
Definition ex_res (f : string) (vs : list value) : outcome * list value :=
  (if String.eqb f "kdtree" then Ret (fold_right Z.add 0%Z vs) else Raise (fold_right Z.add 7%Z vs), [5%Z; 9%Z]).
Example C20_ex_machine :
  table_pure ex_table = true
  /\ (let h := [mk_call "shuffle" [("x", 1%nat)]; mk_call "kdtree" [("seqs", 2%nat)]; mk_call "nosuch" []] in
      let s0 := fun l => match l with LArg o => Z.of_nat o | _ => 3%Z end in
      snd (step ex_table ex_res (run ex_table ex_res s0 h) (mk_call "kdtree" [("seqs", 1%nat)])) = Ret 1%Z
      /\ run ex_table ex_res s0 h (LGlob "p") = 5%Z /\ run ex_table ex_res s0 h LRng = 5%Z).
Proof. vm_compute. repeat split; reflexivity. Qed.
