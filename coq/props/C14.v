(* C14 - distance-filtered search keeps exactly the pairs inside both radii.
   cust : any symmetric custom distance (values in Q); maxc : None = infinite radius. *)
From Coq Require Import List NArith ZArith QArith Bool Arith Lia.
From PV Require Import lib.Edits lib.LevDP lib.Str model.Symdel model.Kdtree model.Nbrs model.Engines
                       proofs.SymdelP proofs.KdtreeP proofs.NbrsP proofs.EnginesP gen.Gen_data model.Tcrdist.
Import ListNotations.
Close Scope Q_scope.
Open Scope nat_scope.

Section Custom.
Variable cust : str -> str -> Q.
Variable k : nat.
Variable maxc : option Q.
Hypothesis cust_sym : forall a b, cust a b = cust b a.

Definition in_both_radii (a b : str) (d : Q) : Prop :=
  slev a b <= k /\ qle_opt (cust a b) maxc = true /\ d = cust a b.

Theorem C14_symdel_exact : forall seqs i j d,
  In (i, j, d) (symdel_self Q_eq_dec (keep_custom cust k maxc) k seqs) <->
  i < length seqs /\ j < length seqs /\ i <> j /\ in_both_radii (sget seqs i) (sget seqs j) d.
Proof.
  intros. rewrite (symdel_self_spec Q_eq_dec (keep_custom cust k maxc) k
                     (keep_custom_within cust k maxc) (keep_custom_sym cust k maxc cust_sym)).
  rewrite keep_custom_spec. unfold in_both_radii. tauto.
Qed.

Theorem C14_symdel_two_exact : forall refs queries q r d,
  In (q, r, d) (symdel_lookup (keep_custom cust k maxc) k refs queries) <->
  q < length queries /\ r < length refs /\ in_both_radii (sget queries q) (sget refs r) d.
Proof.
  intros. rewrite (symdel_lookup_spec (keep_custom cust k maxc) k (keep_custom_within cust k maxc)).
  rewrite keep_custom_spec. unfold in_both_radii. tauto.
Qed.

Theorem C14_kdtree_exact : forall comp seqs i j d,
  In (i, j, d) (kdtree_model (keep_custom cust k maxc) qkey k comp None seqs) <->
  i < length seqs /\ j < length seqs /\ i <> j /\ in_both_radii (sget seqs i) (sget seqs j) d.
Proof.
  intros. rewrite (kdtree_spec (keep_custom cust k maxc) qkey k (keep_custom_within cust k maxc)).
  rewrite keep_custom_spec. unfold in_both_radii. tauto.
Qed.

Theorem C14_hash_exact : forall seqs i j d, (forall s, In s seqs -> over_aa s) ->
  (In (i, j, d) (hash_model (val_custom cust maxc) (lev_nbrs aa_letters) k seqs) <->
   i < length seqs /\ j < length seqs /\ i <> j /\ in_both_radii (sget seqs i) (sget seqs j) d).
Proof.
  intros seqs i j d Hal. unfold hash_model.
  rewrite (lookupdb_spec (val_custom cust maxc) (lev_nbrs aa_letters) k (fun a b => slev a b <= k) true seqs seqs i j d).
  - unfold val_custom, in_both_radii. split.
    + intros (H1 & H2 & H3 & H4 & V).
      destruct (qle_opt (cust (sget seqs i) (sget seqs j)) maxc) eqn:Q; [|discriminate].
      injection V as <-. repeat split; auto.
    + intros (H1 & H2 & H3 & H4 & Q & ->). rewrite Q. repeat split; auto.
  - intros q e He. apply ball_lev. apply Hal. exact He.
Qed.

(* whether a pair is reported depends only on its two distances *)
Theorem C14_depends_only_on_distances : forall a b a' b',
  slev a b = slev a' b' -> cust a b = cust a' b' ->
  keep_custom cust k maxc a b = keep_custom cust k maxc a' b'.
Proof. intros a b a' b' H1 H2. unfold keep_custom. rewrite !slev_x_spec, H1, H2. reflexivity. Qed.
End Custom.
Print Assumptions C14_symdel_exact.
Print Assumptions C14_symdel_two_exact.
Print Assumptions C14_kdtree_exact.
Print Assumptions C14_hash_exact.
Print Assumptions C14_depends_only_on_distances.

(* the bundled V-gene distance tables (regenerated from the CSV files on every run) *)
Definition table_ok (t : list (list N) * list (list N) * list (list Z)) : bool :=
  let '(rows, cols, m) := t in
  (if list_eq_dec (list_eq_dec N.eq_dec) rows cols then true else false) &&
  Nat.eqb (length m) (length rows) &&
  forallb (fun r => Nat.eqb (length r) (length rows)) m &&
  forallb (fun i => Z.eqb (nth i (nth i m []) 1%Z) 0%Z) (seq 0 (length rows)) &&
  forallb (fun i => forallb (fun j => Z.eqb (nth j (nth i m []) 0%Z) (nth i (nth j m []) 1%Z))
                            (seq 0 (length rows))) (seq 0 (length rows)) &&
  Nat.eqb (length (nodup (list_eq_dec N.eq_dec) rows)) (length rows).

Theorem C14_vtables : table_ok vdists_alpha = true /\ table_ok vdists_beta = true.
Proof. split; vm_compute; reflexivity. Qed.
Print Assumptions C14_vtables.

(* nearest_neighbor_tcrdist: candidates from the default search on the (trimmed) CDR3 of the search chain,
   TCRdist = V-table distance + CDR3 distance summed over the requested chains; any tables, any CDR3 distance *)
Theorem C14_tcrdist_exact : forall talpha tbeta cdr3d chain k trimmed maxt rows i j d,
  let x := fun n => nth n rows (Build_tcr [] [] [] []) in
  In (i, j, d) (tcrdist_nn talpha tbeta cdr3d chain k trimmed maxt rows) <->
  i < length rows /\ j < length rows /\ i <> j /\
  slev (search_seq chain trimmed (x i)) (search_seq chain trimmed (x j)) <= k /\
  d = tcrdist talpha tbeta cdr3d chain (x i) (x j) /\ (d <= maxt)%Z.
Proof.
  intros talpha tbeta cdr3d chain k trimmed maxt rows i j d x. unfold tcrdist_nn. rewrite in_flat_map.
  set (ss := map (search_seq chain trimmed) rows).
  assert (G: forall n, n < length rows -> sget ss n = search_seq chain trimmed (x n)).
  { intros n Hn. unfold sget, ss, x. rewrite (nth_indep _ [] (search_seq chain trimmed (Build_tcr [] [] [] []))).
    apply map_nth. now rewrite map_length. }
  split.
  - intros ([[i' j'] e] & Hin & H). simpl in H.
    apply (symdel_self_spec Nat.eq_dec (keep_lev k) k (keep_lev_within k) (keep_lev_sym k)) in Hin.
    destruct Hin as (Hi & Hj & Hne & K). unfold ss in Hi, Hj. rewrite map_length in Hi, Hj.
    apply keep_lev_spec in K as [-> Hk]. rewrite !G in Hk by assumption.
    destruct (Z.leb_spec (tcrdist talpha tbeta cdr3d chain (nth i' rows (Build_tcr [] [] [] [])) (nth j' rows (Build_tcr [] [] [] []))) maxt) as [L|L];
      [|contradiction].
    destruct H as [[= <- <- <-]|[]]. repeat split; auto.
  - intros (Hi & Hj & Hne & Hk & -> & L).
    exists (i, j, slev (sget ss i) (sget ss j)). split.
    + apply (symdel_self_spec Nat.eq_dec (keep_lev k) k (keep_lev_within k) (keep_lev_sym k)).
      unfold ss at 1 2. rewrite map_length. repeat split; auto. apply keep_lev_spec. split; auto.
      rewrite !G by assumption. exact Hk.
    + simpl. fold (x i) (x j). destruct (Z.leb_spec (tcrdist talpha tbeta cdr3d chain (x i) (x j)) maxt); [now left|lia].
Qed.
Print Assumptions C14_tcrdist_exact.

Example C14_ex : let s := [[67;65;65;65]; [67;65;68;65]; [67;68;68;65]; [67;65;65]; [65;65;65;67]]%N in
  length (symdel_self Q_eq_dec (keep_custom (custom_dist 1) 1 None) 1 s) = 8 /\
  symdel_self Q_eq_dec (keep_custom (custom_dist 1) 1 (Some (2 # 1)%Q)) 1 s = [].
Proof. split; vm_compute; reflexivity. Qed.
