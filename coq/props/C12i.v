(* C12 - source tie (third part): next_nearest_neighbors, find_neighbor_pairs and find_neighbor_pairs_index AS WRITTEN in
   pyrepseq/distance.py today (gen/Gen_c12c.v is regenerated from the source text on every run).  `set(..)` is any duplicate-free
   enumeration (iterS), `sorted(set(..))` any fixed one (sortedS): the statements hold for every such order, CPython's included. *)
From Coq Require Import List Arith Bool Lia Permutation NArith.
From PV Require Import lib.Edits lib.Str lib.PyDict lib.NpUnique model.Nbrs gen.Gen_c12 gen.Gen_c12c proofs.NbrsP proofs.GenNbrsP proofs.GenNbrs2P.
Import ListNotations.

(* next_nearest_neighbors(x, neighborhood, maxdistance >= 1): a set (no repeats) holding exactly the model's strings - hence every
   string reachable in 1..maxdistance steps except x itself *)
Theorem C12_source_next_nearest : forall iterS nb x m y, set_order_ok iterS -> 1 <= m ->
  (In y (gen_next_nearest_neighbors iterS nb x m) <-> y <> x /\ exists t, 1 <= t <= m /\ reach nb t x y) /\
  NoDup (gen_next_nearest_neighbors iterS nb x m).
Proof.
  intros iterS nb x m y IS Hm. split; [|apply gen_next_nearest_nodup, IS].
  rewrite (gen_next_nearest_model iterS IS nb x m y Hm). apply next_nearest_spec.
Qed.
Print Assumptions C12_source_next_nearest.

(* ... with the library's own levenshtein_neighbors (regenerated too): exactly the strings over the alphabet at distance 1..maxdistance *)
Theorem C12_source_next_nearest_lev : forall iterS al x m y, set_order_ok iterS -> 1 <= m -> (forall c, In c y -> In c al) ->
  (In y (gen_next_nearest_neighbors iterS (gen_levenshtein_neighbors al) x m) <-> 0 < slev x y <= m).
Proof.
  intros iterS al x m y IS Hm Hy.
  rewrite (gen_next_nearest_model iterS IS (gen_levenshtein_neighbors al) x m y Hm).
  assert (E : next_nearest (gen_levenshtein_neighbors al) m x = next_nearest (lev_nbrs al) m x).
  { unfold next_nearest. f_equal. f_equal.
    assert (F : forall k cur, nn_levels (gen_levenshtein_neighbors al) k cur = nn_levels (lev_nbrs al) k cur).
    { induction k as [|k IH]; intros cur; cbn [nn_levels]; [reflexivity|]. rewrite IH. do 3 f_equal.
      apply flat_map_ext. intros a. apply gen_levenshtein_neighbors_eq. }
    rewrite F, gen_levenshtein_neighbors_eq. reflexivity. }
  rewrite E. apply next_nearest_lev, Hy.
Qed.
Print Assumptions C12_source_next_nearest_lev.

(* find_neighbor_pairs: the same pairs as the model, each as often (a permutation: only the set iteration order is open) *)
Theorem C12_source_find_pairs : forall sortedS iterS nb seqs, set_order_ok sortedS -> set_order_ok iterS ->
  Permutation (gen_find_neighbor_pairs sortedS iterS nb seqs) (find_pairs nb (sortedS seqs)).
Proof. intros. now apply gen_find_pairs_model. Qed.
Print Assumptions C12_source_find_pairs.

(* ... hence, for an irreflexive symmetric neighbourhood: no pair twice, and every neighbouring pair of distinct input strings in
   exactly one orientation - whatever the input's repeats and order *)
Theorem C12_source_find_pairs_each_once : forall sortedS iterS nb seqs a b, set_order_ok sortedS -> set_order_ok iterS ->
  (forall u v, In v (nb u) -> In u (nb v)) -> (forall s, ~ In s (nb s)) ->
  In a seqs -> In b seqs -> In b (nb a) ->
  let out := gen_find_neighbor_pairs sortedS iterS nb seqs in
  NoDup out /\ ((In (a, b) out /\ ~ In (b, a) out) \/ (In (b, a) out /\ ~ In (a, b) out)).
Proof.
  intros sortedS iterS nb seqs a b SS IS Hsym Hirr Ha Hb Hab out.
  pose proof (gen_find_pairs_model sortedS iterS SS IS nb seqs) as P. fold out in P.
  destruct (SS seqs) as [Hnd He].
  split.
  - eapply Permutation_NoDup; [symmetry; exact P|]. apply find_pairs_nodup, Hnd.
  - destruct (find_pairs_unordered nb (sortedS seqs) a b Hnd Hsym Hirr (proj2 (He a) Ha) (proj2 (He b) Hb) Hab) as [[H1 H2]|[H1 H2]].
    + left. split; [eapply Permutation_in; [symmetry; exact P|exact H1]|]. intros C. apply H2. eapply Permutation_in; [exact P|exact C].
    + right. split; [eapply Permutation_in; [symmetry; exact P|exact H1]|]. intros C. apply H2. eapply Permutation_in; [exact P|exact C].
Qed.
Print Assumptions C12_source_find_pairs_each_once.

(* find_neighbor_pairs_index: (i, j) is listed iff seqs[i] has a neighbour in the input whose first position is j; on a
   duplicate-free input: iff seqs[j] is a neighbour of seqs[i] *)
Theorem C12_source_find_pairs_index : forall iterS nb seqs i j, set_order_ok iterS ->
  (In (i, j) (gen_find_neighbor_pairs_index iterS nb seqs) <->
   exists x y, nth_error seqs i = Some x /\ In y (nb x) /\ In y seqs /\ j = index_of str_eq_dec y seqs) /\
  (NoDup seqs -> (In (i, j) (gen_find_neighbor_pairs_index iterS nb seqs) <->
   exists x y, nth_error seqs i = Some x /\ nth_error seqs j = Some y /\ In y (nb x))).
Proof.
  intros iterS nb seqs i j IS. split; [apply gen_find_pairs_index_spec, IS|intros Hnd; apply gen_find_pairs_index_unique; auto].
Qed.
Print Assumptions C12_source_find_pairs_index.

Theorem C12_source_defaults2 : gen_nnn_default_maxdistance = 2 /\ gen_find_pairs_default_is_hamming = true.
Proof. split; reflexivity. Qed.

(* non-vacuity: a set order exists, and the regenerated functions compute *)
Definition idS (l : list str) : list str := nodup str_eq_dec l.
Lemma idS_ok : set_order_ok idS.
Proof. intros l. split; [apply NoDup_nodup|intros c; apply nodup_In]. Qed.
Example C12i_ex :
  length (gen_next_nearest_neighbors idS (gen_hamming_neighbors_default [65;67]%N) [65;65;65]%N 2) = 6
  /\ gen_find_neighbor_pairs idS idS (gen_hamming_neighbors_default [65;67]%N) [[67;65]; [65;65]; [67;65]; [67;67]]%N
     = [([65;65], [67;65]); ([67;65], [67;67])]%N
  /\ gen_find_neighbor_pairs_index idS (gen_hamming_neighbors_default [65;67]%N) [[67;65]; [65;65]; [67;67]]%N
     = [(0, 1); (0, 2); (1, 0); (2, 0)].
Proof. vm_compute. repeat split. Qed.
