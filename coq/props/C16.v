(* C16 - richness and overlap estimators follow their closed forms for every count vector.
   gen_* are regenerated from pyrepseq/stats.py on every run; spec_* are the closed forms. *)
From Coq Require Import List QArith NArith ZArith Bool Arith Permutation.
From PV Require Import lib.Val lib.Str gen.Gen_stats model.Richness proofs.RichnessP.
Import ListNotations.
Open Scope Q_scope.

Theorem C16_chao1 : forall f, (1 <= length f)%nat -> veq (gen_chao1 f) (V (spec_chao1 f)).
Proof. exact chao1_ok. Qed.
Print Assumptions C16_chao1.

Theorem C16_chao2 : forall f m, (1 <= length f)%nat -> veq (gen_chao2 f m) (ov (spec_chao2 f)).
Proof. exact chao2_ok. Qed.
Print Assumptions C16_chao2.

Theorem C16_var_chao1 : forall f, (1 <= length f)%nat -> veq (gen_var_chao1 f) (ov (spec_var_chao f)).
Proof. exact var_chao1_ok. Qed.
Print Assumptions C16_var_chao1.

Theorem C16_var_chao2 : forall f m, (1 <= length f)%nat -> veq (gen_var_chao2 f m) (ov (spec_var_chao f)).
Proof. exact var_chao2_ok. Qed.
Print Assumptions C16_var_chao2.

(* totality: no exception path for any vector of length >= 1 *)
Theorem C16_total : forall f m, (1 <= length f)%nat ->
  gen_var_chao1 f <> Err /\ gen_var_chao2 f m <> Err /\ gen_chao1 f <> Err /\ gen_chao2 f m <> Err.
Proof.
  intros f m L. pose proof (var_chao1_ok f L) as H1. pose proof (var_chao2_ok f m L) as H2.
  pose proof (chao1_ok f L) as H3. pose proof (chao2_ok f m L) as H4.
  repeat split; intro E; rewrite E in *;
    [destruct (spec_var_chao f)|destruct (spec_var_chao f)| |destruct (spec_chao2 f)]; simpl in *; contradiction.
Qed.
Print Assumptions C16_total.

Theorem C16_chao1_ge : forall fz : list Z, (1 <= length fz)%nat -> Forall (fun z => (0 <= z)%Z) fz ->
  sumQ (map inject_Z fz) <= spec_chao1 (map inject_Z fz).
Proof. exact chao1_ge. Qed.
Print Assumptions C16_chao1_ge.

Theorem C16_chao2_ge : forall (fz : list Z) q, (1 <= length fz)%nat -> Forall (fun z => (0 <= z)%Z) fz ->
  spec_chao2 (map inject_Z fz) = Some q -> sumQ (map inject_Z fz) <= q.
Proof. exact chao2_ge. Qed.
Print Assumptions C16_chao2_ge.

(* set measures: |A n B|, |A u B| of the non-missing element sets; symmetric; order and duplicates irrelevant *)
Theorem C16_sets_spec : forall A B li lu, NoDup li -> NoDup lu ->
  (forall x, In x li <-> In (Some x) A /\ In (Some x) B) ->
  (forall x, In x lu <-> In (Some x) A \/ In (Some x) B) ->
  inter_size A B = length li /\ union_size A B = length lu.
Proof. intros A B li lu N1 N2 H1 H2. split; [eapply inter_size_spec|eapply union_size_spec]; eauto. Qed.
Print Assumptions C16_sets_spec.

Theorem C16_sets_symmetric : forall A B,
  jaccard A B = jaccard B A /\ overlap A B = overlap B A /\ overlap_coefficient A B = overlap_coefficient B A.
Proof. intros. split; [apply jaccard_sym|split; [apply overlap_sym|apply overlap_coefficient_sym]]. Qed.
Print Assumptions C16_sets_symmetric.

Theorem C16_sets_invariant : forall A A' B B', same_set A A' -> same_set B B' ->
  jaccard A B = jaccard A' B' /\ overlap A B = overlap A' B' /\ overlap_coefficient A B = overlap_coefficient A' B'.
Proof. intros. split; [apply jaccard_ext|split; [apply overlap_ext|apply overlap_coefficient_ext]]; auto. Qed.
Print Assumptions C16_sets_invariant.

Theorem C16_sets_perm_dup : forall A A', Permutation A A' -> same_set A A' /\ same_set (A ++ A) A.
Proof. intros. split; [now apply same_set_perm|apply same_set_dup]. Qed.
Print Assumptions C16_sets_perm_dup.

(* non-vacuity: a concrete vector with f2 > 0 and one with f2 = 0 *)
Example C16_ex1 : veqb (gen_chao1 [3; 2; 1]) (V (6 + 9 / 4)) = true /\ veqb (gen_chao1 [3; 0; 1]) (V (4 + 3)) = true.
Proof. split; vm_compute; reflexivity. Qed.
Example C16_ex2 : veqb (gen_var_chao1 [3; 2; 1]) (V (369 # 32)) = true.
Proof. vm_compute; reflexivity. Qed.
