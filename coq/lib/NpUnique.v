(* NumPy vocabulary used by stats.pc: np.unique(.., return_counts=True), np.intersect1d(.., assume_unique=True, return_indices=True),
   fancy indexing c[ind].  np.unique returns the distinct values SORTED; the order is left open here: `uniq` is any function that
   lists the distinct values of its argument once each (uniq_ok) - the theorems hold for every such order, NumPy's included. *)
From Coq Require Import List Arith Bool QArith.
Import ListNotations.

Section Np.
Context {X : Type}.
Variable eqd : forall a b : X, {a = b} + {a <> b}.

Definition uniq_ok (uniq : list X -> list X) : Prop :=
  forall l, NoDup (uniq l) /\ (forall x, In x (uniq l) <-> In x l).

(* (values, counts) *)
Definition np_unique_counts (uniq : list X -> list X) (l : list X) : list X * list nat :=
  (uniq l, map (count_occ eqd l) (uniq l)).

Fixpoint index_of (x : X) (l : list X) : nat :=
  match l with [] => 0 | y :: l' => if eqd x y then 0 else S (index_of x l') end.

(* (common values, their indices in v, their indices in v2); v and v2 hold distinct values (assume_unique=True) *)
Definition np_intersect1d (v v2 : list X) : list X * list nat * list nat :=
  let common := filter (fun x => if in_dec eqd x v2 then true else false) v in
  (common, map (fun x => index_of x v) common, map (fun x => index_of x v2) common).

Definition take_idx {A : Type} (d : A) (l : list A) (idx : list nat) : list A := map (fun i => nth i l d) idx.
End Np.

Fixpoint map2 {A B C : Type} (f : A -> B -> C) (la : list A) (lb : list B) : list C :=
  match la, lb with a :: la', b :: lb' => f a b :: map2 f la' lb' | _, _ => [] end.
