(* Row-by-row dynamic programme for the weighted Levenshtein recursion:
   executable form of Edits.wlev, proved equal to it.  No axioms. *)
From Coq Require Import List Arith Lia Bool.
From PV Require Import lib.Edits.
Import ListNotations.

Section DP.
Context {A : Type}.
Variable eq_dec : forall x y : A, {x = y} + {x <> y}.
Variables wi wd ws : nat.
Notation wlev := (wlev eq_dec wi wd ws).
Notation subc := (subc eq_dec ws).

Fixpoint tails (b : list A) : list (list A) :=
  match b with [] => [[]] | _ :: b' => b :: tails b' end.

Definition row0 (b : list A) : list nat := map (fun t => wi * length t) (tails b).

(* row for (x::a) from the row for a; entries are indexed by suffixes of b *)
Fixpoint step (x : A) (b : list A) (old : list nat) : list nat :=
  match b with
  | [] => [wd + hd 0 old]
  | y :: b' =>
      let new' := step x b' (tl old) in
      min3 (wd + hd 0 old) (wi + hd 0 new') (subc x y + hd 0 (tl old)) :: new'
  end.

Fixpoint rowdp (a b : list A) : list nat :=
  match a with [] => row0 b | x :: a' => step x b (rowdp a' b) end.

Definition wlev_dp (a b : list A) : nat := hd 0 (rowdp a b).

Lemma hd_tails (f : list A -> nat) b : hd 0 (map f (tails b)) = f b.
Proof. destruct b; reflexivity. Qed.

Lemma step_spec x a b : step x b (map (wlev a) (tails b)) = map (wlev (x :: a)) (tails b).
Proof.
  induction b as [|y b IH].
  - cbn [tails map step hd]. rewrite !wlev_nil_r. cbn [length]. f_equal. lia.
  - cbn [tails map step tl hd]. rewrite IH, !hd_tails. rewrite wlev_cons. reflexivity.
Qed.

Lemma rowdp_spec a b : rowdp a b = map (wlev a) (tails b).
Proof.
  induction a as [|x a IH]; cbn [rowdp].
  - unfold row0. apply map_ext. intros t. now rewrite wlev_nil_l.
  - rewrite IH. apply step_spec.
Qed.

Theorem wlev_dp_spec a b : wlev_dp a b = wlev a b.
Proof. unfold wlev_dp. rewrite rowdp_spec. apply hd_tails. Qed.

End DP.

Section LevDP.
Context {A : Type}.
Variable eq_dec : forall x y : A, {x = y} + {x <> y}.
Definition lev_dp (a b : list A) : nat := wlev_dp eq_dec 1 1 1 a b.
Lemma lev_dp_spec a b : lev_dp a b = lev eq_dec a b.
Proof. apply wlev_dp_spec. Qed.
End LevDP.
