(* Vocabulary of the regenerated dict / counter loops (coq/gen/Gen_c11.v, written by translate/regen_c11.py).
   Definitions only; proofs in proofs/GenKdtreeP.v.

   A Python computation that may raise is a value of `res A`: `Ok a` (returned a) or `Raise e` (the exception e left
   the function).  Statements are sequenced with `rbind`, a `for` loop over a list is `rfold` (the first exception stops
   the loop).  Only the three exception classes that the translated subset can raise are distinguished.

   A Python `dict` is the association list of its items in INSERTION ORDER (Python >= 3.7 semantics): a new key goes to
   the end, assigning to an existing key keeps its place (and the key object first inserted).  A 1-d NumPy array with
   natural-number positions is a list; a position outside it is IndexError (negative positions never arise: positions
   are naturals).  Small non-negative Python ints are `nat`; array cells (counts) are `Z`. *)
From Coq Require Import List Arith ZArith Bool.
From PV Require Import lib.PyStore.
Import ListNotations.

Inductive pyexn : Type := ZeroDivisionError | KeyError | IndexError.
Inductive res (A : Type) : Type := Ok (a : A) | Raise (e : pyexn).
Arguments Ok {A} a.
Arguments Raise {A} e.

Definition rbind {A B : Type} (r : res A) (f : A -> res B) : res B :=
  match r with Ok a => f a | Raise e => Raise e end.
(* for x in l: s = f s x *)
Fixpoint rfold {S B : Type} (f : S -> B -> res S) (l : list B) (s : S) : res S :=
  match l with
  | [] => Ok s
  | x :: r => rbind (f s x) (fun s' => rfold f r s')
  end.
(* the returned value; d stands for "an exception was raised" in the total entry points *)
Definition unwrap {A : Type} (d : A) (r : res A) : A := match r with Ok a => a | Raise _ => d end.

(* enumerate(l) *)
Definition enumerate {A : Type} (l : list A) : list (nat * A) := combine (seq 0 (length l)) l.

Section Dict.
Context {K V : Type}.
Variable eqb : K -> K -> bool.
(* k in d *)
Fixpoint dict_mem (k : K) (d : list (K * V)) : bool :=
  match d with [] => false | (k', _) :: r => if eqb k' k then true else dict_mem k r end.
(* d[k] *)
Fixpoint dict_get (k : K) (d : list (K * V)) : res V :=
  match d with [] => Raise KeyError | (k', v) :: r => if eqb k' k then Ok v else dict_get k r end.
(* d[k] = v *)
Fixpoint dict_set (k : K) (v : V) (d : list (K * V)) : list (K * V) :=
  match d with
  | [] => [(k, v)]
  | (k', v') :: r => if eqb k' k then (k', v) :: r else (k', v') :: dict_set k v r
  end.
End Dict.

(* a[k] and a[k] = v for a position k : nat *)
Definition arr_get {A : Type} (k : nat) (a : list A) : res A :=
  match nth_error a k with Some v => Ok v | None => Raise IndexError end.
Definition arr_set {A : Type} (k : nat) (v : A) (a : list A) : res (list A) :=
  if Nat.ltb k (length a) then Ok (upd k v a) else Raise IndexError.

(* a // b, int(np.floor(a / b)), int(np.ceil(a / b)) for Python ints a >= 0, b >= 0: ZeroDivisionError at b = 0
   (Python evaluates the int / int quotient itself, NumPy only sees the float).  The binary64 quotient a / b is the
   correctly rounded rational; for 0 <= a <= 20 (the operands here: len(aminoacids), an index below it) and
   1 <= b < 2^1000 its floor and ceiling are those of the exact rational (an integer quotient is exact; a non-integer
   one is at least 1/b away from an integer if b <= 20, and lies strictly inside (0, 1) without underflow if b > 20). *)
Definition py_floordiv (a b : nat) : res nat :=
  if Nat.eqb b 0 then Raise ZeroDivisionError else Ok (a / b).
Definition py_floor_truediv (a b : nat) : res nat :=
  if Nat.eqb b 0 then Raise ZeroDivisionError else Ok (a / b).
Definition py_ceil_truediv (a b : nat) : res nat :=
  if Nat.eqb b 0 then Raise ZeroDivisionError
  else Ok (if Nat.eqb (a mod b) 0 then a / b else S (a / b)).
