(* Exact expectation under i.i.d. (multinomial) sampling, finite sums, and
   multinomial factorial moments.  Uses the [sumR] of the generated file so
   that there is a single notion of list sum. *)
From Coq Require Import List Arith Lia Reals Lra.
From PV Require Import gen.Gen_stats_R.
Import ListNotations.
Open Scope R_scope.

(* ------------------------------------------------------------------ *)
(* Finite sums over an arbitrary index type                            *)
(* ------------------------------------------------------------------ *)

Definition sumf {X : Type} (f : X -> R) (l : list X) : R := sumR (map f l).

Lemma sumf_nil {X} (f : X -> R) : sumf f [] = 0.
Proof. reflexivity. Qed.

Lemma sumf_cons {X} (f : X -> R) a l : sumf f (a :: l) = f a + sumf f l.
Proof. reflexivity. Qed.

Lemma sumf_ext {X} (f g : X -> R) l :
  (forall x, In x l -> f x = g x) -> sumf f l = sumf g l.
Proof.
  unfold sumf. induction l as [|a l IH]; simpl; intros H; [reflexivity|].
  rewrite (H a (or_introl eq_refl)). rewrite IH; [reflexivity|].
  intros x Hx; apply H; now right.
Qed.

Lemma sumf_plus {X} (f g : X -> R) l :
  sumf (fun x => f x + g x) l = sumf f l + sumf g l.
Proof. unfold sumf. induction l as [|a l IH]; simpl; [lra|]. rewrite IH. lra. Qed.

Lemma sumf_scal {X} c (f : X -> R) l : sumf (fun x => c * f x) l = c * sumf f l.
Proof. unfold sumf. induction l as [|a l IH]; simpl; [lra|]. rewrite IH. lra. Qed.

Lemma sumf_scal_r {X} c (f : X -> R) l : sumf (fun x => f x * c) l = sumf f l * c.
Proof. unfold sumf. induction l as [|a l IH]; simpl; [lra|]. rewrite IH. lra. Qed.

Lemma sumf_zero {X} (f : X -> R) l : (forall x, In x l -> f x = 0) -> sumf f l = 0.
Proof.
  unfold sumf. induction l as [|a l IH]; simpl; intros H; [reflexivity|].
  rewrite (H a (or_introl eq_refl)), IH; [lra|]. intros x Hx; apply H; now right.
Qed.

Lemma sumf_mul {X Y} (f : X -> R) (g : Y -> R) l l' :
  sumf f l * sumf g l' = sumf (fun i => sumf (fun j => f i * g j) l') l.
Proof.
  rewrite <- sumf_scal_r. apply sumf_ext; intros i _. now rewrite sumf_scal.
Qed.

Lemma sumRf_sumf (f : R -> R) (l : list R) : sumRf f l = sumf f l.
Proof. reflexivity. Qed.

(* Kronecker delta *)
Definition dl (j i : nat) : R := if Nat.eqb j i then 1 else 0.

Lemma dl_sym j i : dl j i = dl i j.
Proof. unfold dl. now rewrite Nat.eqb_sym. Qed.

Lemma dl_refl i : dl i i = 1.
Proof. unfold dl. now rewrite Nat.eqb_refl. Qed.

Lemma dl_neq j i : j <> i -> dl j i = 0.
Proof. unfold dl. intros H. destruct (Nat.eqb_spec j i); [contradiction|reflexivity]. Qed.

Lemma sumf_delta (g : nat -> R) i l :
  NoDup l -> In i l -> sumf (fun k => g k * dl k i) l = g i.
Proof.
  induction l as [|a l IH]; intros ND HI; [destruct HI|].
  rewrite sumf_cons. inversion ND as [|a' l' Hnotin ND']; subst.
  destruct HI as [->|HI].
  - rewrite dl_refl. rewrite sumf_zero; [lra|].
    intros x Hx. rewrite dl_neq; [lra|]. intros ->. contradiction.
  - rewrite dl_neq; [|intros ->; contradiction]. rewrite IH; auto. lra.
Qed.

(* ------------------------------------------------------------------ *)
(* Probability vectors and the exact i.i.d. expectation                *)
(* ------------------------------------------------------------------ *)

Definition pr (p : list R) (i : nat) : R := nth i p 0.

(* exact expectation of f over N i.i.d. draws (category indices) from p *)
Fixpoint E (p : list R) (N : nat) (f : list nat -> R) : R :=
  match N with
  | O => f []
  | S N' => sumf (fun i => pr p i * E p N' (fun xs => f (i :: xs))) (seq 0 (length p))
  end.

Lemma map_pr_seq p : map (pr p) (seq 0 (length p)) = p.
Proof.
  induction p as [|a p IH]; [reflexivity|].
  cbn [length seq map]. f_equal. rewrite <- seq_shift, map_map. exact IH.
Qed.

Lemma sumf_pr p (f : R -> R) :
  sumf (fun i => f (pr p i)) (seq 0 (length p)) = sumR (map f p).
Proof. unfold sumf. rewrite <- (map_map (pr p) f), map_pr_seq. reflexivity. Qed.

Lemma sumf_pr_id p : sumf (pr p) (seq 0 (length p)) = sumR p.
Proof. unfold sumf. now rewrite map_pr_seq. Qed.

Lemma sumf_pr2 p : forall q, length p = length q ->
  sumf (fun i => pr p i * pr q i) (seq 0 (length p))
  = sumR (map (fun ab => fst ab * snd ab) (combine p q)).
Proof.
  induction p as [|a p IH]; intros [|b q] Hlen; simpl in Hlen; try discriminate; [reflexivity|].
  cbn [length seq combine map sumR]. rewrite sumf_cons. cbn [fst snd].
  unfold sumf. rewrite <- seq_shift, map_map. f_equal.
  apply (IH q). now injection Hlen.
Qed.

Lemma E_ext p N : forall f g, (forall xs, f xs = g xs) -> E p N f = E p N g.
Proof.
  induction N as [|N IH]; intros f g H; cbn [E]; [apply H|].
  apply sumf_ext; intros i _. f_equal. apply IH. intros xs; apply H.
Qed.

(* within E, samples have exactly N elements, all < length p *)
Lemma E_ext_valid p N : forall f g,
  (forall xs, length xs = N -> Forall (fun i => (i < length p)%nat) xs -> f xs = g xs) ->
  E p N f = E p N g.
Proof.
  induction N as [|N IH]; intros f g H; cbn [E].
  - apply H; [reflexivity|constructor].
  - apply sumf_ext; intros i Hi. f_equal. apply IH. intros xs Hl HF.
    apply H; [simpl; lia|]. constructor; [apply in_seq in Hi; lia|exact HF].
Qed.

Lemma E_plus p N : forall f g, E p N (fun xs => f xs + g xs) = E p N f + E p N g.
Proof.
  induction N as [|N IH]; intros f g; cbn [E]; [reflexivity|].
  rewrite <- sumf_plus. apply sumf_ext; intros i _. rewrite IH. lra.
Qed.

Lemma E_scal p N : forall c f, E p N (fun xs => c * f xs) = c * E p N f.
Proof.
  induction N as [|N IH]; intros c f; cbn [E]; [reflexivity|].
  rewrite <- sumf_scal. apply sumf_ext; intros i _. rewrite IH. lra.
Qed.

Lemma E_zero p N : E p N (fun _ => 0) = 0.
Proof.
  rewrite (E_ext p N (fun _ => 0) (fun xs => 0 * 0)) by (intros; lra).
  rewrite (E_scal p N 0 (fun _ => 0)). lra.
Qed.

Lemma E_sumf {X} p N (g : X -> list nat -> R) l :
  E p N (fun xs => sumf (fun i => g i xs) l) = sumf (fun i => E p N (g i)) l.
Proof.
  induction l as [|a l IH].
  - cbn [sumf map sumR]. apply E_zero.
  - rewrite sumf_cons. rewrite <- IH, <- E_plus. apply E_ext; intros xs. reflexivity.
Qed.

(* ------------------------------------------------------------------ *)
(* Falling factorials and counts                                       *)
(* ------------------------------------------------------------------ *)

Fixpoint ffR (r : nat) (x : R) : R :=
  match r with O => 1 | S r' => ffR r' x * (x - INR r') end.

Lemma ffR_succ r x : ffR (S r) (x + 1) = ffR (S r) x + INR (S r) * ffR r x.
Proof.
  induction r as [|r IH]; [simpl; lra|].
  change (ffR (S (S r)) (x + 1)) with (ffR (S r) (x + 1) * (x + 1 - INR (S r))). rewrite IH.
  change (ffR (S (S r)) x) with (ffR (S r) x * (x - INR (S r))).
  change (ffR (S r) x) with (ffR r x * (x - INR r)). rewrite !S_INR. ring.
Qed.

Lemma ffR_succ_gen r x : ffR r (x + 1) = ffR r x + INR r * ffR (pred r) x.
Proof. destruct r as [|r]; [simpl; lra|]. cbn [pred]. apply ffR_succ. Qed.

Lemma ffR_S_0 r : ffR (S r) 0 = 0.
Proof.
  induction r as [|r IH]; [simpl; lra|].
  change (ffR (S (S r)) 0) with (ffR (S r) 0 * (0 - INR (S r))). rewrite IH. lra.
Qed.

Lemma ffR_1 x : ffR 1 x = x.
Proof. simpl. lra. Qed.
Lemma ffR_2 x : ffR 2 x = x * (x - 1).
Proof. simpl. lra. Qed.
Lemma ffR_3 x : ffR 3 x = x * (x - 1) * (x - 2).
Proof. simpl. lra. Qed.
Lemma ffR_4 x : ffR 4 x = x * (x - 1) * (x - 2) * (x - 3).
Proof. simpl. lra. Qed.

(* m^2 (m-1)^2 = m^(4) + 4 m^(3) + 2 m^(2) *)
Lemma ffR_2_sq x : ffR 2 x * ffR 2 x = ffR 4 x + 4 * ffR 3 x + 2 * ffR 2 x.
Proof. rewrite ffR_2, ffR_3, ffR_4. ring. Qed.

Definition cnt (i : nat) (xs : list nat) : R := INR (count_occ Nat.eq_dec xs i).

Lemma cnt_nil i : cnt i [] = 0.
Proof. reflexivity. Qed.

Lemma cnt_cons i j xs : cnt i (j :: xs) = cnt i xs + dl j i.
Proof.
  unfold cnt, dl. simpl. destruct (Nat.eq_dec j i) as [e|ne], (Nat.eqb_spec j i) as [e'|ne'];
    try congruence; [rewrite S_INR; lra|lra].
Qed.

Definition countsR (K : nat) (xs : list nat) : list R :=
  map (fun i => INR (count_occ Nat.eq_dec xs i)) (seq 0 K).

Definition pc2R (c1 c2 : list R) : R :=
  sumR (map (fun ab => fst ab * snd ab) (combine c1 c2)) / (sumR c1 * sumR c2).

Lemma sumR_countsR K xs : sumR (countsR K xs) = sumf (fun i => cnt i xs) (seq 0 K).
Proof. reflexivity. Qed.

Lemma sumRf_countsR (f : R -> R) K xs :
  sumRf f (countsR K xs) = sumf (fun i => f (cnt i xs)) (seq 0 K).
Proof. unfold sumRf, countsR, sumf. rewrite map_map. reflexivity. Qed.

Lemma countsR_sum K xs :
  Forall (fun i => (i < K)%nat) xs -> sumR (countsR K xs) = INR (length xs).
Proof.
  rewrite sumR_countsR. induction xs as [|j xs IH]; intros HF.
  - apply sumf_zero. intros; apply cnt_nil.
  - inversion HF as [|j' xs' Hj HF']; subst.
    rewrite (sumf_ext _ (fun i => cnt i xs + 1 * dl i j)).
    2:{ intros i _. rewrite cnt_cons, (dl_sym j i). lra. }
    rewrite sumf_plus, (IH HF'), (sumf_delta (fun _ => 1)).
    + cbn [length]. rewrite S_INR. reflexivity.
    + apply seq_NoDup.
    + apply in_seq; lia.
Qed.

Lemma combine_map_same {X A B} (f : X -> A) (g : X -> B) l :
  combine (map f l) (map g l) = map (fun i => (f i, g i)) l.
Proof. induction l as [|a l IH]; simpl; [reflexivity|]. now rewrite IH. Qed.

Lemma pc2R_countsR K xs ys :
  pc2R (countsR K xs) (countsR K ys)
  = sumf (fun i => cnt i xs * cnt i ys) (seq 0 K)
    / (sumR (countsR K xs) * sumR (countsR K ys)).
Proof.
  unfold pc2R. f_equal. unfold countsR at 1 2. rewrite combine_map_same, map_map. reflexivity.
Qed.

(* sum over categories of the r-th falling factorial of the counts *)
Definition Fm (r K : nat) (xs : list nat) : R := sumf (fun i => ffR r (cnt i xs)) (seq 0 K).

Lemma sumRf_countsR_ff r (f : R -> R) K xs :
  (forall x, f x = ffR r x) -> sumRf f (countsR K xs) = Fm r K xs.
Proof. intros H. rewrite sumRf_countsR. apply sumf_ext; intros i _. apply H. Qed.

Lemma sumRf_countsR_id (f : R -> R) K xs :
  (forall x, f x = x) -> sumRf f (countsR K xs) = sumR (countsR K xs).
Proof. intros H. rewrite sumRf_countsR, sumR_countsR. apply sumf_ext; intros i _. apply H. Qed.

(* power sums of the probability vector *)
Definition Sp (p : list R) (r : nat) : R := sumf (fun i => pr p i ^ r) (seq 0 (length p)).

Lemma Sp_map p r : Sp p r = sumR (map (fun x => x ^ r) p).
Proof. unfold Sp. apply (sumf_pr p (fun x => x ^ r)). Qed.

(* ------------------------------------------------------------------ *)
(* Lemmas that need sum p = 1                                          *)
(* ------------------------------------------------------------------ *)

Section Normalised.
Variable p : list R.
Hypothesis psum : sumR p = 1.

Lemma E_const N c : E p N (fun _ => c) = c.
Proof.
  induction N as [|N IH]; cbn [E]; [reflexivity|].
  rewrite (sumf_ext _ (fun i => pr p i * c)) by (intros i _; now rewrite IH).
  rewrite sumf_scal_r, sumf_pr_id, psum. lra.
Qed.

(* one draw: the integrand changes by delta-weighted increments at i and j *)
Lemma E_step2 i j N (f g h1 h2 : list nat -> R) :
  (i < length p)%nat -> (j < length p)%nat ->
  (forall k xs, f (k :: xs) = g xs + dl k i * h1 xs + dl k j * h2 xs) ->
  E p (S N) f = E p N g + pr p i * E p N h1 + pr p j * E p N h2.
Proof.
  intros Hi Hj Hf. cbn [E].
  rewrite (sumf_ext _ (fun k => pr p k * E p N g + (pr p k * E p N h1) * dl k i
                                 + (pr p k * E p N h2) * dl k j)).
  2:{ intros k _.
      rewrite (E_ext p N _ (fun xs => g xs + dl k i * h1 xs + dl k j * h2 xs)) by (intros; apply Hf).
      rewrite !E_plus, !E_scal. ring. }
  rewrite !sumf_plus, sumf_scal_r, sumf_pr_id, psum.
  rewrite (sumf_delta (fun k => pr p k * E p N h1)), (sumf_delta (fun k => pr p k * E p N h2));
    try apply seq_NoDup; try (apply in_seq; lia).
  ring.
Qed.

Lemma E_step1 i N (f g h : list nat -> R) :
  (i < length p)%nat ->
  (forall k xs, f (k :: xs) = g xs + dl k i * h xs) ->
  E p (S N) f = E p N g + pr p i * E p N h.
Proof.
  intros Hi Hf.
  rewrite (E_step2 i i N f g h (fun _ => 0) Hi Hi) by (intros; rewrite Hf; ring).
  rewrite E_zero. ring.
Qed.

(* multinomial factorial moment, one index *)
Theorem E_ff1 i : (i < length p)%nat ->
  forall N r, E p N (fun xs => ffR r (cnt i xs)) = ffR r (INR N) * pr p i ^ r.
Proof.
  intros Hi. induction N as [|N IH]; intros r.
  - cbn [E INR]. rewrite cnt_nil. destruct r as [|r]; [simpl; ring|]. rewrite ffR_S_0. ring.
  - rewrite (E_step1 i N _ (fun xs => ffR r (cnt i xs))
                     (fun xs => INR r * ffR (pred r) (cnt i xs)) Hi).
    2:{ intros k xs. rewrite cnt_cons. unfold dl. destruct (Nat.eqb k i).
        - rewrite ffR_succ_gen. ring.
        - rewrite Rplus_0_r. ring. }
    rewrite E_scal, !IH, S_INR, ffR_succ_gen.
    destruct r as [|r]; cbn [pred pow INR]; ring.
Qed.

(* multinomial factorial moment, two distinct indices *)
Theorem E_ff2 i j : (i < length p)%nat -> (j < length p)%nat -> i <> j ->
  forall N r s, E p N (fun xs => ffR r (cnt i xs) * ffR s (cnt j xs))
                = ffR (r + s) (INR N) * pr p i ^ r * pr p j ^ s.
Proof.
  intros Hi Hj Hij. induction N as [|N IH]; intros r s.
  - cbn [E INR]. rewrite !cnt_nil.
    destruct r as [|r]; [destruct s as [|s]|].
    + simpl; ring.
    + cbn [Nat.add]. rewrite !ffR_S_0. ring.
    + cbn [Nat.add]. rewrite !ffR_S_0. ring.
  - rewrite (E_step2 i j N _ (fun xs => ffR r (cnt i xs) * ffR s (cnt j xs))
                     (fun xs => INR r * (ffR (pred r) (cnt i xs) * ffR s (cnt j xs)))
                     (fun xs => INR s * (ffR r (cnt i xs) * ffR (pred s) (cnt j xs))) Hi Hj).
    2:{ intros k xs. rewrite !cnt_cons. unfold dl.
        destruct (Nat.eqb_spec k i) as [eki|nki], (Nat.eqb_spec k j) as [ekj|nkj].
        - exfalso. apply Hij. congruence.
        - rewrite ffR_succ_gen, Rplus_0_r. ring.
        - rewrite ffR_succ_gen, Rplus_0_r. ring.
        - rewrite !Rplus_0_r. ring. }
    rewrite !E_scal, !IH, S_INR, ffR_succ_gen, plus_INR.
    destruct r as [|r], s as [|s]; cbn [pred pow Nat.add INR];
      rewrite ?Nat.add_0_r, ?Nat.add_succ_r; cbn [pred]; ring.
Qed.

(* E[ sum_i n_i^(r) ] = N^(r) S_r *)
Lemma E_Fm r N : E p N (Fm r (length p)) = ffR r (INR N) * Sp p r.
Proof.
  unfold Fm, Sp. rewrite E_sumf, <- sumf_scal.
  apply sumf_ext; intros i Hi. apply E_ff1. apply in_seq in Hi; lia.
Qed.

(* E[ n_i^(2) n_j^(2) ], diagonal and off-diagonal in one formula *)
Lemma E_ff22 i j N : (i < length p)%nat -> (j < length p)%nat ->
  E p N (fun xs => ffR 2 (cnt i xs) * ffR 2 (cnt j xs))
  = ffR 4 (INR N) * (pr p i ^ 2 * pr p j ^ 2)
    + (4 * ffR 3 (INR N) * pr p i ^ 3 + 2 * ffR 2 (INR N) * pr p i ^ 2) * dl j i.
Proof.
  intros Hi Hj. destruct (Nat.eq_dec j i) as [e|ne].
  - subst j. rewrite dl_refl.
    rewrite (E_ext p N _ (fun xs => ffR 4 (cnt i xs) + 4 * ffR 3 (cnt i xs) + 2 * ffR 2 (cnt i xs)))
      by (intros xs; apply ffR_2_sq).
    rewrite !E_plus, !E_scal, !(E_ff1 i Hi). ring.
  - rewrite dl_neq by exact ne.
    rewrite (E_ff2 i j Hi Hj (fun e => ne (eq_sym e)) N 2 2). cbn [Nat.add]. ring.
Qed.

(* E[ (sum_i n_i^(2))^2 ] = N^(4) S2^2 + 4 N^(3) S3 + 2 N^(2) S2 *)
Theorem E_Fm2_sq N :
  E p N (fun xs => Fm 2 (length p) xs ^ 2)
  = ffR 4 (INR N) * Sp p 2 ^ 2 + 4 * ffR 3 (INR N) * Sp p 3 + 2 * ffR 2 (INR N) * Sp p 2.
Proof.
  rewrite (E_ext p N _ (fun xs => sumf (fun i => sumf (fun j =>
             ffR 2 (cnt i xs) * ffR 2 (cnt j xs)) (seq 0 (length p))) (seq 0 (length p)))).
  2:{ intros xs. unfold Fm. rewrite <- sumf_mul. ring. }
  rewrite E_sumf.
  rewrite (sumf_ext _ (fun i => (ffR 4 (INR N) * Sp p 2) * pr p i ^ 2
                                + (4 * ffR 3 (INR N) * pr p i ^ 3 + 2 * ffR 2 (INR N) * pr p i ^ 2))).
  2:{ intros i Hi. apply in_seq in Hi. rewrite E_sumf.
      rewrite (sumf_ext _ (fun j => (ffR 4 (INR N) * pr p i ^ 2) * pr p j ^ 2
             + (4 * ffR 3 (INR N) * pr p i ^ 3 + 2 * ffR 2 (INR N) * pr p i ^ 2) * dl j i)).
      2:{ intros j Hj. apply in_seq in Hj. rewrite E_ff22 by lia. ring. }
      rewrite sumf_plus, sumf_scal.
      rewrite (sumf_delta (fun _ => 4 * ffR 3 (INR N) * pr p i ^ 3 + 2 * ffR 2 (INR N) * pr p i ^ 2));
        [|apply seq_NoDup|apply in_seq; lia].
      unfold Sp. ring. }
  rewrite !sumf_plus, !sumf_scal. unfold Sp. ring.
Qed.

End Normalised.

(* sanity: E really enumerates samples -- two fair draws, expected count of category 0 is 1,
   and P(both draws equal) = 1/2 *)
Example E_sanity_mean : E [1/2; 1/2] 2 (fun xs => cnt 0 xs) = 1.
Proof. unfold cnt. cbn. lra. Qed.
Example E_sanity_pair : E [1/2; 1/2] 2 (fun xs => ffR 2 (cnt 0 xs) + ffR 2 (cnt 1 xs)) / 2 = 1/2.
Proof. unfold cnt. cbn. lra. Qed.
