(* Python slice semantics s[start:stop] (step 1) on a sequence: negative bounds count from the end, bounds are clipped to [0, len],
   a missing bound is the respective end, an empty range gives the empty sequence. *)
From Coq Require Import List ZArith Arith.
Import ListNotations.

Definition norm_idx (len : nat) (i : Z) : nat :=
  if (i <? 0)%Z then Z.to_nat (Z.max 0 (Z.of_nat len + i)) else Nat.min (Z.to_nat i) len.

Definition py_slice {A : Type} (s : list A) (start stop : option Z) : list A :=
  let len := length s in
  let a := match start with None => 0 | Some i => norm_idx len i end in
  let b := match stop with None => len | Some i => norm_idx len i end in
  firstn (b - a) (skipn a s).
