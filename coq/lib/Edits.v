(* Edit scripts, deletion variants, one-edit paths and the (weighted) Levenshtein
   recursion, generic in the letter type.  This file is the *definition* of
   "edit distance" every search property talks about.  No axioms. *)
From Coq Require Import List Arith Lia Bool.
Import ListNotations.

Section Edits.
Context {A : Type}.
Variable eq_dec : forall x y : A, {x = y} + {x <> y}.

(* alignment of a (source) with b (target): i letters of b inserted, d letters
   of a deleted, s letters substituted (rapidfuzz orientation source->target) *)
Inductive edits : list A -> list A -> nat -> nat -> nat -> Prop :=
| E_nil : edits [] [] 0 0 0
| E_match x a b i d s : edits a b i d s -> edits (x::a) (x::b) i d s
| E_sub x y a b i d s : x<>y -> edits a b i d s -> edits (x::a) (y::b) i d (S s)
| E_del x a b i d s : edits a b i d s -> edits (x::a) b i (S d) s
| E_ins y a b i d s : edits a b i d s -> edits a (y::b) (S i) d s.

Definition within a b n := exists i d s, edits a b i d s /\ i+d+s <= n.

Lemma edits_refl a : edits a a 0 0 0.
Proof. induction a; constructor; auto. Qed.

Lemma edits_sym a b i d s : edits a b i d s -> edits b a d i s.
Proof. induction 1; constructor; auto. Qed.

Lemma edits_zero a b i d s : edits a b i d s -> i+d+s = 0 -> a = b.
Proof. induction 1; intros Hz; try lia; auto. f_equal; auto. Qed.

Lemma edits_length a b i d s : edits a b i d s -> length a + i = length b + d.
Proof. induction 1; simpl; lia. Qed.

Lemma edits_ins_all b : edits [] b (length b) 0 0.
Proof. induction b; simpl; constructor; auto. Qed.
Lemma edits_del_all a : edits a [] 0 (length a) 0.
Proof. induction a; simpl; constructor; auto. Qed.

Lemma within_refl a : within a a 0.
Proof. exists 0,0,0; split; [apply edits_refl|lia]. Qed.
Lemma within_sym a b n : within a b n -> within b a n.
Proof. intros (i&d&s&E&H). exists d,i,s; split; [now apply edits_sym|lia]. Qed.
Lemma within_weaken a b n m : within a b n -> n <= m -> within a b m.
Proof. intros (i&d&s&E&H) L. exists i,d,s; split; auto; lia. Qed.
Lemma within_zero a b : within a b 0 -> a = b.
Proof. intros (i&d&s&E&H). eapply edits_zero; eauto; lia. Qed.
Lemma within_cons_sub x y a b n : within a b n -> within (x::a) (y::b) (S n).
Proof. intros (i&d&s&E&H). destruct (eq_dec x y) as [->|N].
  exists i,d,s; split; [now constructor|lia].
  exists i,d,(S s); split; [now constructor|lia]. Qed.
Lemma within_cons_match x a b n : within a b n -> within (x::a) (x::b) n.
Proof. intros (i&d&s&E&H). exists i,d,s; split; [now constructor|lia]. Qed.
Lemma within_del x a b n : within a b n -> within (x::a) b (S n).
Proof. intros (i&d&s&E&H). exists i,(S d),s; split; [now constructor|lia]. Qed.
Lemma within_ins y a b n : within a b n -> within a (y::b) (S n).
Proof. intros (i&d&s&E&H). exists (S i),d,s; split; [now constructor|lia]. Qed.

(* ---------- deletion variants (symmetric-delete index) ---------- *)
Inductive del : nat -> list A -> list A -> Prop :=
| D_nil : del 0 [] []
| D_keep n x a c : del n a c -> del n (x::a) (x::c)
| D_drop n x a c : del n a c -> del (S n) (x::a) c.

Fixpoint dels (k:nat) (a:list A) : list (list A) :=
  match a with
  | [] => [[]]
  | x::a' => map (cons x) (dels k a') ++ match k with 0 => [] | S k' => dels k' a' end
  end.

Lemma dels_spec k a c : In c (dels k a) <-> exists n, n <= k /\ del n a c.
Proof.
  revert k c; induction a as [|x a IH]; intros k c; simpl.
  - split.
    + intros [<-|[]]. exists 0; split; [lia|constructor].
    + intros (n & Hn & H). inversion H; subst. now left.
  - rewrite in_app_iff, in_map_iff. split.
    + intros [(c' & <- & Hc')|H].
      * apply IH in Hc' as (n & Hn & Hd). exists n; split; auto. now constructor.
      * destruct k as [|k]; [easy|]. apply IH in H as (n & Hn & Hd).
        exists (S n); split; [lia|]. now constructor.
    + intros (n & Hn & H). inversion H; subst.
      * left. eexists; split; eauto. apply IH. eauto.
      * right. destruct k as [|k]; [lia|]. apply IH. exists n0; split; [lia|auto].
Qed.

Lemma del_refl a : del 0 a a.
Proof. induction a; constructor; auto. Qed.

Lemma del_length n a c : del n a c -> length a = length c + n.
Proof. induction 1; simpl; lia. Qed.

Lemma del_edits n a c : del n a c -> edits a c 0 n 0.
Proof. induction 1; constructor; auto. Qed.

Lemma edits_common a b i d s : edits a b i d s -> exists c, del (d+s) a c /\ del (i+s) b c.
Proof.
  induction 1 as [|x a b i d s _ (c&H1&H2)|x y a b i d s _ _ (c&H1&H2)|x a b i d s _ (c&H1&H2)|y a b i d s _ (c&H1&H2)].
  - exists []; split; constructor.
  - exists (x::c); split; now constructor.
  - exists c; rewrite !Nat.add_succ_r; split; now constructor.
  - exists c; split; [now constructor|assumption].
  - exists c; split; [assumption|now constructor].
Qed.

Theorem symdel_complete k a b : within a b k ->
  exists c, In c (dels k a) /\ In c (dels k b).
Proof.
  intros (i&d&s&H&Hk). destruct (edits_common _ _ _ _ _ H) as (c&H1&H2).
  exists c; split; apply dels_spec; eexists; (split; [|eassumption]); lia.
Qed.

(* equal-length strings related by substitutions only share a variant too *)
Lemma edits_subs_common a b s : edits a b 0 0 s -> exists c, del s a c /\ del s b c.
Proof. intros H. apply edits_common in H. simpl in H. exact H. Qed.

(* ---------- one-edit steps and paths ---------- *)
Variable P : A -> Prop.
Inductive one_edit : list A -> list A -> Prop :=
| O_sub x y b : x <> y -> P y -> one_edit (x::b) (y::b)
| O_ins y b : P y -> one_edit b (y::b)
| O_del x b : one_edit (x::b) b
| O_there x b c : one_edit b c -> one_edit (x::b) (x::c).

Lemma edits_step a b i d s : edits a b i d s -> forall c, one_edit b c -> within a c (S (i+d+s)).
Proof.
  induction 1 as [|x a b i d s E IH|x y a b i d s N E IH|x a b i d s E IH|y a b i d s E IH]; intros c O.
  - inversion O; subst. apply within_ins. exists 0,0,0; split; [constructor|lia].
  - inversion O; subst.
    + apply within_cons_sub. exists i,d,s; split; auto.
    + apply within_ins. exists i,d,s; split; [now constructor|lia].
    + apply within_del. exists i,d,s; split; auto; lia.
    + apply within_cons_match. apply IH; auto.
  - inversion O; subst.
    + eapply within_weaken. apply within_cons_sub. exists i,d,s; split; eauto. lia.
    + apply within_ins. exists i,d,(S s); split; [now constructor|lia].
    + eapply within_weaken. apply within_del. exists i,d,s; split; eauto. lia.
    + eapply within_weaken. apply within_cons_sub. apply IH; eauto. lia.
  - eapply within_weaken. apply within_del. apply IH; eauto. lia.
  - inversion O; subst.
    + eapply within_weaken. apply within_ins. exists i,d,s; split; eauto. lia.
    + apply within_ins. exists (S i),d,s; split; [now constructor|lia].
    + eapply within_weaken. exists i,d,s; split; eauto. lia.
    + eapply within_weaken. apply within_ins. apply IH; eauto. lia.
Qed.

Inductive path : nat -> list A -> list A -> Prop :=
| P0 a : path 0 a a
| PS n a b c : path n a b -> one_edit b c -> path (S n) a c.

Theorem path_within n a b : path n a b -> within a b n.
Proof. induction 1 as [a|n a b c _ (i&d&s&E&H) O]. apply within_refl.
  eapply within_weaken. eapply edits_step; eauto. lia. Qed.

Lemma path_cons x n a b : path n a b -> path n (x::a) (x::b).
Proof. induction 1; econstructor; eauto. now constructor. Qed.
Lemma path_trans n m a b c : path n a b -> path m b c -> path (m+n) a c.
Proof. intros H1 H2; induction H2; simpl; auto. econstructor; eauto. Qed.
Lemma path_first a b c n : one_edit a b -> path n b c -> path (S n) a c.
Proof. intros O H. replace (S n) with (n+1) by lia. eapply path_trans; eauto. econstructor; [constructor|auto]. Qed.

Theorem edits_path a b i d s : edits a b i d s -> Forall P b -> path (i+d+s) a b.
Proof.
  induction 1 as [|x a b i d s E IH|x y a b i d s N E IH|x a b i d s E IH|y a b i d s E IH]; intros F.
  - constructor.
  - inversion F; subst. apply path_cons; auto.
  - inversion F; subst. rewrite Nat.add_succ_r. eapply path_first. apply O_sub; eauto. apply path_cons; auto.
  - rewrite Nat.add_succ_r, Nat.add_succ_l. eapply path_first. apply O_del. auto.
  - inversion F; subst. rewrite !Nat.add_succ_l. econstructor. apply IH; auto. now constructor.
Qed.

(* letters of a one-edit result: old letters or letters satisfying P *)
Lemma one_edit_letters Q b c : one_edit b c -> Forall Q b -> (forall y, P y -> Q y) -> Forall Q c.
Proof. induction 1; intros F HPQ; inversion F; subst; auto. Qed.

(* ---------- weighted Levenshtein, recursive specification ---------- *)
Variables wi wd ws : nat.
Definition cost i d s := wi*i + wd*d + ws*s.
Definition min3 a b c := Nat.min a (Nat.min b c).
Definition subc (x y : A) := if eq_dec x y then 0 else ws.

Fixpoint wlev (a : list A) : list A -> nat :=
  match a with
  | [] => fun b => wi * length b
  | x::a' => fix inner (b : list A) : nat :=
      match b with
      | [] => wd * length a
      | y::b' => min3 (wd + wlev a' b) (wi + inner b') (subc x y + wlev a' b')
      end
  end.

Lemma wlev_nil_l b : wlev [] b = wi * length b. Proof. reflexivity. Qed.
Lemma wlev_nil_r a : wlev a [] = wd * length a. Proof. destruct a; simpl; lia. Qed.
Lemma wlev_cons x a y b : wlev (x::a) (y::b) =
  min3 (wd + wlev a (y::b)) (wi + wlev (x::a) b) (subc x y + wlev a b).
Proof. reflexivity. Qed.

Lemma wlev_attained a : forall b, exists i d s, edits a b i d s /\ wlev a b = cost i d s.
Proof.
  induction a as [|x a IHa]; intros b.
  - exists (length b), 0, 0. split; [apply edits_ins_all|]. rewrite wlev_nil_l. unfold cost. lia.
  - induction b as [|y b IHb].
    + exists 0, (length (x::a)), 0. split; [apply edits_del_all|]. rewrite wlev_nil_r. unfold cost; lia.
    + rewrite wlev_cons. unfold min3, subc.
      destruct (IHa (y::b)) as (i1&d1&s1&E1&C1).
      destruct IHb as (i2&d2&s2&E2&C2).
      destruct (IHa b) as (i3&d3&s3&E3&C3).
      destruct (Nat.min_spec (wd + wlev a (y::b)) (Nat.min (wi + wlev (x::a) b) ((if eq_dec x y then 0 else ws) + wlev a b))) as [[_ ->]|[_ ->]].
      * exists i1, (S d1), s1. split; [now constructor|]. unfold cost in *. lia.
      * destruct (Nat.min_spec (wi + wlev (x::a) b) ((if eq_dec x y then 0 else ws) + wlev a b)) as [[_ ->]|[_ ->]].
        -- exists (S i2), d2, s2. split; [now constructor|]. unfold cost in *. lia.
        -- destruct (eq_dec x y) as [->|N].
           ++ exists i3, d3, s3. split; [now constructor|]. unfold cost in *; lia.
           ++ exists i3, d3, (S s3). split; [now constructor|]. unfold cost in *; lia.
Qed.

Lemma wlev_minimal a b i d s : edits a b i d s -> wlev a b <= cost i d s.
Proof.
  induction 1.
  - simpl. unfold cost. lia.
  - rewrite wlev_cons. unfold min3, subc. destruct (eq_dec x x); [|congruence]. unfold cost in *. lia.
  - rewrite wlev_cons. unfold min3, subc. destruct (eq_dec x y); [congruence|]. unfold cost in *. lia.
  - destruct b as [|y b].
    + rewrite wlev_nil_r in *. simpl length. unfold cost in *. lia.
    + rewrite wlev_cons. unfold min3, cost in *. lia.
  - destruct a as [|x a].
    + rewrite wlev_nil_l in *. simpl length. unfold cost in *. lia.
    + rewrite wlev_cons. unfold min3, cost in *. lia.
Qed.

Lemma wlev_upper a b : wlev a b <= wd * length a + wi * length b.
Proof.
  revert b; induction a as [|x a IH]; intros b.
  - rewrite wlev_nil_l; lia.
  - induction b as [|y b IHb].
    + rewrite wlev_nil_r. lia.
    + rewrite wlev_cons. unfold min3. specialize (IH (y::b)). simpl length in *. lia.
Qed.

End Edits.

Arguments one_edit {A} P _ _.
Arguments path {A} P _ _ _.

(* ---------- the unit-weight instance ---------- *)
Section Lev.
Context {A : Type}.
Variable eq_dec : forall x y : A, {x = y} + {x <> y}.

Definition lev (a b : list A) : nat := wlev eq_dec 1 1 1 a b.

Lemma lev_le_iff a b k : lev a b <= k <-> within a b k.
Proof.
  unfold lev. split.
  - intros H. destruct (wlev_attained eq_dec 1 1 1 a b) as (i&d&s&E&C).
    exists i,d,s; split; auto. unfold cost in C. lia.
  - intros (i&d&s&E&H). pose proof (wlev_minimal eq_dec 1 1 1 _ _ _ _ _ E) as M.
    unfold cost in M. lia.
Qed.

Lemma lev_within a b : within a b (lev a b).
Proof. apply lev_le_iff. lia. Qed.

Lemma lev_refl a : lev a a = 0.
Proof. assert (lev a a <= 0) by (apply lev_le_iff, within_refl). lia. Qed.

Lemma lev_zero a b : lev a b = 0 -> a = b.
Proof. intros H. apply within_zero. apply lev_le_iff. lia. Qed.

Lemma lev_zero_iff a b : lev a b = 0 <-> a = b.
Proof. split; [apply lev_zero|intros ->; apply lev_refl]. Qed.

Lemma lev_sym a b : lev a b = lev b a.
Proof.
  assert (H: forall a b, lev a b <= lev b a).
  { intros x y. apply lev_le_iff. apply within_sym. apply lev_within. }
  pose proof (H a b); pose proof (H b a); lia.
Qed.

Lemma lev_length_lower a b : length a - length b <= lev a b /\ length b - length a <= lev a b.
Proof.
  destruct (lev_within a b) as (i&d&s&E&H). apply edits_length in E. lia.
Qed.

Lemma lev_upper a b : lev a b <= length a + length b.
Proof. unfold lev. pose proof (wlev_upper eq_dec 1 1 1 a b). lia. Qed.

(* triangle inequality through one-edit paths with P := True *)
Lemma within_trans (a b c : list A) n m : within a b n -> within b c m -> within a c (n+m).
Proof.
  intros H1 (i&d&s&E&H).
  assert (Pth: path (fun _ => True) (i+d+s) b c).
  { eapply edits_path; eauto. clear. induction c; constructor; auto. }
  assert (G: forall k (x y : list A), path (fun _ => True) k x y -> forall n, within a x n -> within a y (n+k)).
  { clear - eq_dec. induction 1 as [x|k x y z Hp IH O]; intros n Hn.
    - now rewrite Nat.add_0_r.
    - destruct (IH _ Hn) as (i&d&s&E&H).
      eapply within_weaken. eapply edits_step; eauto. lia. }
  eapply within_weaken. eapply G; eauto. lia.
Qed.

Lemma lev_triangle a b c : lev a c <= lev a b + lev b c.
Proof. apply lev_le_iff. eapply within_trans; apply lev_within. Qed.

Lemma del_lev_le n a c : del n a c -> lev a c <= n.
Proof. intros H. apply lev_le_iff. exists 0,n,0. split; [now apply del_edits|lia]. Qed.

(* Hamming distance: None for unequal lengths (the code's np.inf) *)
Fixpoint ham (a b : list A) : option nat :=
  match a, b with
  | [], [] => Some 0
  | x::a', y::b' => match ham a' b' with
                    | Some n => Some (if eq_dec x y then n else S n)
                    | None => None end
  | _, _ => None
  end.

Lemma ham_length a b n : ham a b = Some n -> length a = length b.
Proof. revert b n; induction a as [|x a IH]; destruct b as [|y b]; simpl; intros n H; try discriminate; auto.
  destruct (ham a b) eqn:E; try discriminate. f_equal. eauto. Qed.

Lemma ham_some a b : length a = length b -> exists n, ham a b = Some n.
Proof. revert b; induction a as [|x a IH]; destruct b as [|y b]; simpl; intros H; try discriminate; eauto.
  destruct (IH b) as (n&->); [lia|]. eauto. Qed.

Lemma ham_edits a b n : ham a b = Some n -> edits a b 0 0 n.
Proof. revert b n; induction a as [|x a IH]; destruct b as [|y b]; simpl; intros n H; try discriminate.
  - injection H as <-. constructor.
  - destruct (ham a b) eqn:E; try discriminate. injection H as <-.
    destruct (eq_dec x y) as [->|N]; constructor; auto. Qed.

Lemma edits_ham_gen a b i d s : edits a b i d s -> i = 0 -> d = 0 -> ham a b = Some s.
Proof.
  induction 1 as [|x a b i d s E IH|x y a b i d s N E IH|x a b i d s E IH|y a b i d s E IH];
    intros Hi Hd; try discriminate; simpl; auto.
  - rewrite IH; auto. destruct (eq_dec x x); congruence.
  - rewrite IH; auto. destruct (eq_dec x y); congruence.
Qed.
Lemma edits_ham a b s : edits a b 0 0 s -> ham a b = Some s.
Proof. intros H. eapply edits_ham_gen; eauto. Qed.

Lemma ham_ge_lev a b n : ham a b = Some n -> lev a b <= n.
Proof. intros H. apply lev_le_iff. exists 0,0,n; split; [now apply ham_edits|lia]. Qed.

Lemma ham_sym a b : ham a b = ham b a.
Proof. revert b; induction a as [|x a IH]; destruct b as [|y b]; simpl; auto.
  rewrite IH. destruct (ham b a); auto. destruct (eq_dec x y), (eq_dec y x); congruence. Qed.

Lemma ham_refl a : ham a a = Some 0.
Proof. induction a as [|x a IH]; simpl; auto. rewrite IH. destruct (eq_dec x x); congruence. Qed.

Lemma ham_zero a b : ham a b = Some 0 -> a = b.
Proof. intros H. apply ham_edits in H. eapply edits_zero; eauto. Qed.

End Lev.
