(* Strings as lists of code points. *)
From Coq Require Import List NArith Bool Arith Lia.
From PV Require Import lib.Edits lib.LevDP.
Import ListNotations.

Definition str := list N.
Definition str_eq_dec : forall a b : str, {a = b} + {a <> b} := list_eq_dec N.eq_dec.
Definition str_eqb (a b : str) : bool := if str_eq_dec a b then true else false.
Lemma str_eqb_eq a b : str_eqb a b = true <-> a = b.
Proof. unfold str_eqb. destruct (str_eq_dec a b); split; congruence. Qed.

Definition slev (a b : str) : nat := lev N.eq_dec a b.          (* specification *)
Definition slev_x (a b : str) : nat := lev_dp N.eq_dec a b.      (* executable *)
Lemma slev_x_spec a b : slev_x a b = slev a b.
Proof. apply lev_dp_spec. Qed.
Definition sham (a b : str) : option nat := ham N.eq_dec a b.

Definition memb {X} (eqd : forall a b : X, {a = b} + {a <> b}) (x : X) (l : list X) : bool :=
  if in_dec eqd x l then true else false.
Lemma memb_In {X} eqd (x : X) l : memb eqd x l = true <-> In x l.
Proof. unfold memb. destruct (in_dec eqd x l); split; auto; discriminate. Qed.
