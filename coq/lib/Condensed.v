(* SciPy condensed-matrix index algebra (C05, C08, C09, C13). Definitions; proofs in proofs/CondensedP.v *)
From Coq Require Import List Arith.
Import ListNotations.

Definition cidx (m i j : nat) : nat := m * i + j - ((i + 2) * (i + 1)) / 2.
(* row-major strict upper triangle: (0,1) (0,2) ... (0,m-1) (1,2) ... *)
Definition upper (m : nat) : list (nat * nat) :=
  flat_map (fun i => map (fun j => (i, j)) (seq (S i) (m - S i))) (seq 0 m).

Section Loops.
Context {X D : Type}.
Variable f : X -> X -> D.
Variable d0 : X.
(* distance.pdist: for i in range(m-1): for j in range(i+1, m): dm[k] = f(s[i], s[j]); k += 1 *)
Definition pdist_loop (xs : list X) : list D :=
  map (fun ij => f (nth (fst ij) xs d0) (nth (snd ij) xs d0)) (upper (length xs)).
(* distance.cdist *)
Definition cdist_loop (xa xb : list X) : list (list D) := map (fun a => map (f a) xb) xa.
(* squareform(checks=False) of a square matrix: its strict upper triangle, row-major *)
Definition squareform_vec (dd : D) (M : list (list D)) : list D :=
  map (fun ij => nth (snd ij) (nth (fst ij) M []) dd) (upper (length M)).
End Loops.
