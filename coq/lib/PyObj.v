(* A small universe of Python objects for C18 (isvalidaa / isvalidcdr3) and the protocol
   operations the code applies to them, written from the language reference:
   iter(o), len(o), o[i] for an int i, hash(o) (only whether it raises), x == "str".
   Definitions only. *)
From Coq Require Import List NArith ZArith QArith Bool Arith.
Import ListNotations.

Inductive pyobj :=
| PStr (s : list N)                 (* str, code points *)
| PBytes (b : list N)               (* bytes *)
| PNone | PNaN | PNA                (* None, float('nan'), pandas.NA *)
| PInt (z : Z) | PFloat (q : Q) | PBool (b : bool)
| PList (l : list pyobj) | PTuple (l : list pyobj)
| PSet (frozen : bool) (l : list pyobj)       (* set / frozenset, elements in iteration order *)
| PDict (kvs : list (pyobj * pyobj))          (* insertion order *)
| PGen (l : list pyobj)                       (* generator / iterator: iterable, no len, not subscriptable *)
| POpaque.                                    (* object(), complex, ...: hashable, not iterable, not subscriptable *)

(* the exceptions these operations can raise *)
Inductive exn := TypeError | IndexError | KeyError.
(* classes an except clause may name *)
Inductive exncls := CTypeError | CIndexError | CKeyError | CLookupError | CException.
Definition handles (c : exncls) (e : exn) : bool :=
  match c, e with
  | CException, _ => true
  | CTypeError, TypeError => true
  | CIndexError, IndexError => true
  | CKeyError, KeyError => true
  | CLookupError, IndexError => true
  | CLookupError, KeyError => true
  | _, _ => false
  end.

Inductive res (A : Type) := Ok (a : A) | Raise (e : exn).
Arguments Ok {A} a.
Arguments Raise {A} e.
Definition rbind {A B} (r : res A) (f : A -> res B) : res B :=
  match r with Ok a => f a | Raise e => Raise e end.
(* try: r  except <classes>: return dflt *)
Definition catch {A} (cs : list exncls) (dflt : A) (r : res A) : res A :=
  match r with
  | Ok a => Ok a
  | Raise e => if existsb (fun c => handles c e) cs then Ok dflt else Raise e
  end.

(* hash(o) raises TypeError for list, set, dict (and bytearray, not modelled) and for a tuple
   holding an unhashable object; frozenset elements are hashable by construction *)
Fixpoint hashable (o : pyobj) : bool :=
  match o with
  | PList _ | PDict _ | PSet false _ => false
  | PTuple l => (fix all (l : list pyobj) : bool := match l with [] => true | x :: r => hashable x && all r end) l
  | _ => true
  end.

Definition py_iter (o : pyobj) : res (list pyobj) :=
  match o with
  | PStr s => Ok (map (fun c => PStr [c]) s)
  | PBytes b => Ok (map (fun c => PInt (Z.of_N c)) b)
  | PList l | PTuple l | PSet _ l | PGen l => Ok l
  | PDict kvs => Ok (map fst kvs)
  | _ => Raise TypeError
  end.

Definition py_len (o : pyobj) : res nat :=
  match o with
  | PStr s | PBytes s => Ok (length s)
  | PList l | PTuple l | PSet _ l => Ok (length l)
  | PDict kvs => Ok (length kvs)
  | _ => Raise TypeError
  end.

(* sequence indexing with Python's negative-index rule *)
Definition seq_get {A} (l : list A) (i : Z) : option A :=
  let n := Z.of_nat (length l) in
  let j := if (i <? 0)%Z then (n + i)%Z else i in
  if ((0 <=? j) && (j <? n))%Z%bool then nth_error l (Z.to_nat j) else None.

(* k == i for an int i (dict lookup: 1 == 1.0 == True and their hashes agree) *)
Definition key_is_int (k : pyobj) (i : Z) : bool :=
  match k with
  | PInt z => Z.eqb z i
  | PBool b => Z.eqb (if b then 1 else 0)%Z i
  | PFloat q => Qeq_bool q (inject_Z i)
  | _ => false
  end.

Definition py_getitem (o : pyobj) (i : Z) : res pyobj :=
  match o with
  | PStr s => match seq_get s i with Some c => Ok (PStr [c]) | None => Raise IndexError end
  | PBytes s => match seq_get s i with Some c => Ok (PInt (Z.of_N c)) | None => Raise IndexError end
  | PList l | PTuple l => match seq_get l i with Some x => Ok x | None => Raise IndexError end
  | PDict kvs => match find (fun kv => key_is_int (fst kv) i) kvs with
                 | Some kv => Ok (snd kv) | None => Raise KeyError end
  | _ => Raise TypeError
  end.

Definition codes_eqb (a b : list N) : bool := if list_eq_dec N.eq_dec a b then true else false.
(* x == "literal": only a str equals a str; never raises for the objects of this universe *)
Definition py_eq_str (x : pyobj) (s : list N) : bool :=
  match x with PStr t => codes_eqb t s | _ => false end.
(* x in S for a set S of one-character strings: hash(x) first *)
Definition py_in_charset (alphabet : list N) (x : pyobj) : res bool :=
  if hashable x then
    Ok (match x with PStr [c] => existsb (N.eqb c) alphabet | _ => false end)
  else Raise TypeError.

(* ---- facts about io.py that translate/regen_c18.py re-reads from the source on every run ---- *)
(* the conjuncts of isvalidcdr3's return expression (a Python `and` chain over the argument) *)
Inductive cond :=
| CValidAA                                   (* isvalidaa(arg) *)
| CLenPos                                    (* len(arg) > 0 *)
| CItemEq (i : Z) (s : list N)               (* arg[i] == "s" *)
| CItemIn (i : Z) (ss : list (list N)).      (* arg[i] in ["s1", "s2", ...] *)

Record codefacts := {
  aa_catches : list exncls;          (* classes named by isvalidaa's except clause *)
  cdr3_conds : list cond;            (* isvalidcdr3's return expression *)
  cdr3_catches : list exncls;        (* classes named by isvalidcdr3's except clause *)
  merge_on_kw : bool;                (* multimerge's column branch passes `on` by keyword (positionally it lands in `how`) *)
  std_cols : list (list N * nat)     (* standard column name -> standardiser (0 junction, 1 tr, 2 mh, 3 aa) *)
}.
