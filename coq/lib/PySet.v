(* Python set vocabulary of the overlap measures in stats.py.  Elements are tokens (N); None stands for a missing value (None / NaN),
   which is an ordinary hashable element of a Python set unless `dropna` removed it.  A set is a duplicate-free list. *)
From Coq Require Import List Arith Bool NArith QArith.
From PV Require Import lib.Str.
Import ListNotations.

Definition oeq : forall a b : option N, {a = b} + {a <> b}.
Proof. decide equality. apply N.eq_dec. Defined.

Definition py_dropna (l : list (option N)) : list (option N) := filter (fun o => match o with Some _ => true | None => false end) l.
Definition py_set (l : list (option N)) : list (option N) := nodup oeq l.
Definition py_inter (A B : list (option N)) : list (option N) := filter (fun x => memb oeq x B) A.
Definition py_union (A B : list (option N)) : list (option N) := nodup oeq (A ++ B).

(* what a measure returns: a number, np.nan, or ZeroDivisionError *)
Inductive sres := SQ (q : Q) | SNat (n : nat) | SNaN | SZeroDiv.
Definition py_truediv (a b : nat) : sres := if Nat.eqb b 0 then SZeroDiv else SQ (Z.of_nat a # Pos.of_nat b).
