(* C11: chunked parallel map (multiprocessing.Pool.map contract) and top-m selection.
   Definitions only; proofs in proofs/ChunkP.v *)
From Coq Require Import List Arith Bool.
Import ListNotations.

Section Chunk.
Context {X Y : Type}.

(* split xs into consecutive chunks of size c (last one may be shorter); fuel = length xs *)
Fixpoint chunks_fuel (fuel c : nat) (xs : list X) : list (list X) :=
  match fuel with
  | 0 => []
  | S fuel' => match xs with
               | [] => []
               | _ => firstn c xs :: chunks_fuel fuel' c (skipn c xs)
               end
  end.
Definition chunks (c : nat) (xs : list X) : list (list X) := chunks_fuel (length xs) c xs.

(* results arrive as (chunk index, chunk result) in completion order `sched`;
   the pool stores each in its slot and returns the slots in index order *)
Definition slot (done : list (nat * list Y)) (i : nat) : list Y :=
  match find (fun p => Nat.eqb (fst p) i) done with Some p => snd p | None => [] end.
Definition pool_map (f : X -> Y) (xs : list X) (c : nat) (sched : list nat) : list Y :=
  let cs := chunks c xs in
  let done := map (fun i => (i, map f (nth i cs []))) sched in
  concat (map (slot done) (seq 0 (length cs))).
End Chunk.

Section TopM.
Context {T : Type}.
Variable key : T -> nat.
(* stable insertion sort by key (x is inserted before the first element whose key is not smaller, so ties keep
   their original order): sorted(..., key=...) /
   rapidfuzz.process.extract's "ascending score, then index" *)
Fixpoint insert_by (x : T) (l : list T) : list T :=
  match l with
  | [] => [x]
  | y :: r => if Nat.ltb (key y) (key x) then y :: insert_by x r else x :: l
  end.
Fixpoint sort_by (l : list T) : list T :=
  match l with [] => [] | x :: r => insert_by x (sort_by r) end.
Definition top_m (limit : option nat) (l : list T) : list T :=
  match limit with None => sort_by l | Some m => firstn m (sort_by l) end.
End TopM.
