(* Value domain of the arithmetic kernels regenerated from pyrepseq/stats.py:
   an exact rational, NaN (np.nan), or Err (the Python code would raise:
   index out of range, unbound name, division of Python ints by zero,
   or a construct the translator refuses). *)
From Coq Require Import List QArith Bool Arith Lia.
Import ListNotations.
Open Scope Q_scope.

Inductive val := V (q : Q) | NaN | Err.

Definition bind (v : val) (f : Q -> val) : val :=
  match v with V q => f q | NaN => NaN | Err => Err end.
Definition bindc (c : option bool) (f : bool -> val) : val :=
  match c with Some b => f b | None => Err end.

Definition lift2 (op : Q -> Q -> Q) (a b : val) : val :=
  match a, b with
  | Err, _ | _, Err => Err
  | NaN, _ | _, NaN => NaN
  | V x, V y => V (op x y)
  end.
Definition vadd := lift2 Qplus.
Definition vsub := lift2 Qminus.
Definition vmul := lift2 Qmult.
Definition vdiv (a b : val) : val :=
  match a, b with
  | Err, _ | _, Err => Err
  | NaN, _ | _, NaN => NaN
  | V x, V y => if Qeq_bool y 0 then Err else V (x / y)
  end.
Definition vneg (a : val) : val := match a with V x => V (- x) | o => o end.
Definition vpow (a : val) (n : nat) : val :=
  match a with V x => V (x ^ Z.of_nat n) | o => o end.

Fixpoint sumQ (l : list Q) : Q := match l with [] => 0 | x :: l' => x + sumQ l' end.
Definition vsum (l : list Q) : val := V (sumQ l).
Definition idx (l : list Q) (i : nat) : val :=
  match nth_error l i with Some x => V x | None => Err end.

(* conditions: None = the evaluation raises *)
Definition clen (l : list Q) (n : nat) : option bool := Some (Nat.eqb (length l) n).
Definition ceq (a b : val) : option bool :=
  match a, b with V x, V y => Some (Qeq_bool x y) | NaN, V _ | V _, NaN | NaN, NaN => Some false | _, _ => None end.
Definition cor (a b : option bool) : option bool :=
  match a with Some true => Some true | Some false => b | None => None end.
Definition cand (a b : option bool) : option bool :=
  match a with Some false => Some false | Some true => b | None => None end.
Definition cnot (a : option bool) : option bool := option_map negb a.

(* equality of values up to Qeq *)
Definition veq (a b : val) : Prop :=
  match a, b with V x, V y => x == y | NaN, NaN => True | Err, Err => True | _, _ => False end.
Definition veqb (a b : val) : bool :=
  match a, b with V x, V y => Qeq_bool x y | NaN, NaN => true | Err, Err => true | _, _ => false end.

(* wire form for the oracle: (tag, value) with tag 0 = value, 1 = NaN, 2 = Err *)
Definition val_wire (v : val) : (nat * Q) :=
  match v with V q => (0%nat, Qred q) | NaN => (1%nat, 0) | Err => (2%nat, 0) end.
