(* Store-passing vocabulary of the regenerated loop nests (coq/gen/Gen_c08.v, written by translate/regen_c08.py).
   Definitions only; proofs in proofs/GenDistP.v.
   Python integers are Z (so `m - 1` at m = 0 is -1, `//` is floor division = Z.div); a NumPy vector is a list,
   a matrix a list of rows.  IndexError is not modelled: an out-of-range load yields the default, an out-of-range
   store leaves the array unchanged (the model stays total). *)
From Coq Require Import List ZArith Bool.
Import ListNotations.

(* dm[k] = v on a list, k a position *)
Fixpoint upd {A : Type} (k : nat) (v : A) (l : list A) : list A :=
  match l, k with
  | [], _ => []
  | _ :: t, O => v :: t
  | h :: t, S k' => h :: upd k' v t
  end.
(* dm[i, j] = v on a list of rows *)
Definition upd2 {A : Type} (i j : nat) (v : A) (M : list (list A)) : list (list A) :=
  upd i (upd j v (nth i M [])) M.

Local Open Scope Z_scope.
(* Python index -> position: 0 <= i < n is i, -n <= i < 0 is n + i, anything else is out of range *)
Definition pyidx (n : nat) (i : Z) : option nat :=
  if 0 <=? i then (if i <? Z.of_nat n then Some (Z.to_nat i) else None)
  else if - Z.of_nat n <=? i then Some (Z.to_nat (Z.of_nat n + i)) else None.
(* l[i] *)
Definition znth {A : Type} (i : Z) (l : list A) (d : A) : A :=
  match pyidx (length l) i with Some p => nth p l d | None => d end.
(* l[i] = v *)
Definition zupd {A : Type} (i : Z) (v : A) (l : list A) : list A :=
  match pyidx (length l) i with Some p => upd p v l | None => l end.
(* M[i, j] = v *)
Definition zupd2 {A : Type} (i j : Z) (v : A) (M : list (list A)) : list (list A) :=
  match pyidx (length M) i with Some p => upd p (zupd j v (nth p M [])) M | None => M end.
(* range(a, b) *)
Definition zrange (a b : Z) : list Z := map (fun t => a + Z.of_nat t) (seq 0 (Z.to_nat (b - a))).
(* np.empty(n) is written `repeat dd (Z.to_nat n)` (uninitialised cells = a default value), np.empty((r, c)) is
   `repeat (repeat dd (Z.to_nat c)) (Z.to_nat r)` *)
