(* NumPy / pandas vocabulary of the resampling utilities (C17).  `np.random.choice(a, k, replace=False)` and `DataFrame.sample(n=k)`
   return the elements (rows) of `a` at k distinct positions below len(a); WHICH positions is the random draw, a parameter here:
   `draw : nat -> list nat` gives the positions drawn for each requested size, and the theorems hold for every draw_ok one. *)
From Coq Require Import List Arith Sorting.Sorted.
Import ListNotations.

Definition np_choice {X : Type} (d : X) (a : list X) (pos : list nat) : list X := map (fun t => nth t a d) pos.
Definition df_sample {X : Type} (d : X) (rows : list X) (pos : list nat) : list X := map (fun t => nth t rows d) pos.

(* enumerate(l, start) *)
Definition enumerate_from {A : Type} (start : nat) (l : list A) : list (nat * A) := combine (seq start (length l)) l.

(* a draw from a population of N items: for every admissible size k the positions are distinct, k of them, below N *)
Definition draw_ok (N : nat) (draw : nat -> list nat) : Prop :=
  forall k, k <= N -> NoDup (draw k) /\ length (draw k) = k /\ (forall t, In t (draw k) -> t < N).

(* np.unique on integers: the distinct values, ascending *)
Definition sorted_uniq_ok (uniq : list nat -> list nat) : Prop :=
  forall l, StronglySorted lt (uniq l) /\ (forall x, In x (uniq l) <-> In x l).
