(* Python's sorted(iterable, key=f): a STABLE ascending sort by key.  `le` is the order on keys (x <= y); an element is placed before the first
   element whose key is not smaller than its own, so elements with equal keys keep their original order. *)
From Coq Require Import List Bool.
Import ListNotations.

Section PySorted.
Context {T K : Type}.
Variable le : K -> K -> bool.
Variable key : T -> K.

Fixpoint py_insert (x : T) (l : list T) : list T :=
  match l with
  | [] => [x]
  | y :: r => if le (key x) (key y) then x :: l else y :: py_insert x r
  end.
Fixpoint py_sorted (l : list T) : list T :=
  match l with [] => [] | x :: r => py_insert x (py_sorted r) end.
End PySorted.
