(* Python's sorted(iterable, key=f): a STABLE ascending sort by key.  `le` is the order on keys (x <= y); an element is placed before the first
   element whose key is not smaller than its own, so elements with equal keys keep their original order. *)
From Coq Require Import List Bool Arith.
Import ListNotations.

Section PySorted.
Context {T K : Type}.
Variable le : K -> K -> bool.
Variable key : T -> K.

Fixpoint py_insert (x : T) (l : list T) : list T :=
  match l with
  | [] => [x]
  | y :: r => if le (key x) (key y) then x :: l else y :: py_insert x r
  end.
Fixpoint py_sorted (l : list T) : list T :=
  match l with [] => [] | x :: r => py_insert x (py_sorted r) end.
End PySorted.

(* rapidfuzz.process.extract(query, choices, scorer=, score_cutoff=, limit=) for a distance scorer: the choices whose score does not exceed the
   cutoff as (choice, score, index in choices), ascending by score, ties by index, the first `limit` of them when a limit is given *)
Definition rf_extract {S : Type} (scorer : S -> S -> nat) (query : S) (choices : list S) (cutoff : nat) (limit : option nat)
  : list (S * nat * nat) :=
  let scored := map (fun ic => (snd ic, scorer query (snd ic), fst ic)) (combine (seq 0 (length choices)) choices) in
  let kept := filter (fun t => Nat.leb (snd (fst t)) cutoff) scored in
  let srt := py_sorted Nat.leb (fun t : S * nat * nat => snd (fst t)) kept in
  match limit with None => srt | Some m => firstn m srt end.
