(* itertools.combinations, Python slices and range, as total list functions.
   Used by the regenerated deletion-variant generator (coq/gen/Gen_c01.v).  Definitions only;
   the lemmas are in proofs/CombinationsP.v. *)
From Coq Require Import List Arith.
Import ListNotations.

(* itertools.combinations(l, r): the length-r order-preserving sublists of l, in the order of
   itertools (lexicographic in the positions: the combinations holding the first element come first) *)
Fixpoint combinations {A : Type} (l : list A) (r : nat) {struct l} : list (list A) :=
  match r, l with
  | 0, _ => [[]]
  | S _, [] => []
  | S r', x :: l' => map (cons x) (combinations l' r') ++ combinations l' r
  end.

(* c is an order-preserving sublist (subsequence) of l *)
Inductive sublist {A : Type} : list A -> list A -> Prop :=
| sub_nil : sublist [] []
| sub_keep x c l : sublist c l -> sublist (x :: c) (x :: l)
| sub_skip x c l : sublist c l -> sublist c (x :: l).

(* s[a:b] for non-negative a, b (empty when b <= a, cut at the end of s) *)
Definition slice {A : Type} (s : list A) (a b : nat) : list A := firstn (b - a) (skipn a s).

(* range(a, b) for non-negative a, b (empty when b <= a) *)
Definition py_range (a b : nat) : list nat := seq a (b - a).
