(* Hand-written glue between the text protocol (harness/proto.py) and the
   extracted model (Model).  Numbers cross the boundary as strings; no Coq
   number type is remapped to an OCaml one. *)
open Model

type st = { toks : string array; mutable pos : int }
let next st = let t = st.toks.(st.pos) in st.pos <- st.pos + 1; t
let peek st = st.toks.(st.pos)

let rec nat_of_int i = if i <= 0 then O else S (nat_of_int (i - 1))
let int_of_nat n = let rec go acc = function O -> acc | S m -> go (acc + 1) m in go 0 n

(* positive <-> binary digit string (most significant first) *)
let pos_of_bits (s : string) : positive =
  (* s starts with '1' *)
  let n = String.length s in
  let rec go i acc = if i >= n then acc
    else go (i + 1) (if s.[i] = '1' then XI acc else XO acc) in
  if n = 0 || s.[0] <> '1' then failwith ("bad positive " ^ s) else go 1 XH
let bits_of_pos (p : positive) : string =
  let b = Buffer.create 16 in
  let rec go p acc = match p with
    | XH -> '1' :: acc | XO q -> go q ('0' :: acc) | XI q -> go q ('1' :: acc) in
  List.iter (Buffer.add_char b) (go p []); Buffer.contents b

let z_of_tok (t : string) : z =
  let neg = String.length t > 0 && t.[0] = '-' in
  let t = if neg then String.sub t 1 (String.length t - 1) else t in
  if String.length t < 2 || t.[0] <> 'b' then failwith ("bad number " ^ t) else
  let body = String.sub t 1 (String.length t - 1) in
  if body = "0" then Z0 else
  let p = pos_of_bits body in if neg then Zneg p else Zpos p
let tok_of_z = function Z0 -> "b0" | Zpos p -> "b" ^ bits_of_pos p | Zneg p -> "-b" ^ bits_of_pos p
let n_of_tok t = match z_of_tok t with Z0 -> N0 | Zpos p -> Npos p | Zneg _ -> failwith "negative N"
let tok_of_n = function N0 -> "b0" | Npos p -> "b" ^ bits_of_pos p
let n_of_int (i : int) : n =
  if i = 0 then N0 else
  let rec bits i acc = if i = 0 then acc else bits (i / 2) ((if i land 1 = 1 then "1" else "0") ^ acc) in
  Npos (pos_of_bits (bits i ""))
let int_of_n (x : n) : int = match x with N0 -> 0 | Npos p ->
  let s = bits_of_pos p in let r = ref 0 in String.iter (fun c -> r := !r * 2 + (if c = '1' then 1 else 0)) s; !r

let p_nat st = nat_of_int (int_of_string (next st))
let p_n st = n_of_tok (next st)
let p_z st = z_of_tok (next st)
let p_bool st = match next st with "T" -> true | "F" -> false | t -> failwith ("bad bool " ^ t)
let p_str st =
  let t = next st in
  if String.length t = 0 || t.[0] <> 's' then failwith ("bad str " ^ t) else
  let body = String.sub t 1 (String.length t - 1) in
  if body = "" then [] else List.map (fun c -> n_of_int (int_of_string c)) (String.split_on_char '.' body)
let p_q st =
  let t = next st in
  match String.split_on_char '/' t with
  | [a; b] -> (match z_of_tok b with Zpos d -> { qnum = z_of_tok a; qden = d } | _ -> failwith "bad Q den")
  | _ -> failwith ("bad Q " ^ t)
let p_list p st =
  if next st <> "(" then failwith "expected (" else
  let rec go acc = if peek st = ")" then (ignore (next st); List.rev acc) else go (p st :: acc) in go []
let p_option p st = match next st with "None" -> None | "Some" -> Some (p st) | t -> failwith ("bad option " ^ t)

let sp buf = Buffer.add_char buf ' '
let w_nat buf n = Buffer.add_string buf (string_of_int (int_of_nat n)); sp buf
let w_n buf x = Buffer.add_string buf (tok_of_n x); sp buf
let w_z buf x = Buffer.add_string buf (tok_of_z x); sp buf
let w_bool buf b = Buffer.add_string buf (if b then "T" else "F"); sp buf
let w_str buf s =
  Buffer.add_char buf 's';
  Buffer.add_string buf (String.concat "." (List.map (fun c -> string_of_int (int_of_n c)) s)); sp buf
let w_q buf x = Buffer.add_string buf (tok_of_z x.qnum ^ "/b" ^ bits_of_pos x.qden); sp buf
let w_list w buf l = Buffer.add_string buf "( "; List.iter (w buf) l; Buffer.add_string buf ") "
let w_option w buf = function None -> Buffer.add_string buf "None " | Some v -> Buffer.add_string buf "Some "; w buf v

let tokenize (line : string) : string array =
  Array.of_list (List.filter (fun s -> s <> "") (String.split_on_char ' ' line))

let main (dispatch : string -> st -> Buffer.t -> unit) =
  (try while true do
    let line = input_line stdin in
    let toks = tokenize line in
    if Array.length toks = 0 then print_endline "ERROR empty" else begin
      let st = { toks; pos = 1 } in
      let buf = Buffer.create 256 in
      (try dispatch toks.(0) st buf; print_endline (Buffer.contents buf)
       with e -> print_endline ("ERROR " ^ Printexc.to_string e))
    end
  done with End_of_file -> ());
  flush stdout
